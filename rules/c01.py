"""C01 — exactly-once delivery on point-to-point channels. DESIGN.md §4 C01."""
import re

import mir
from report import Result
from rules import common, orderings, pubsub

P2P_GROUPS = ("spsc", "mpsc", "mpmc_v2", "oneshot", "internal")


# ---------------------------------------------------------------------------
# C01-1: handoff state and payload pointers are touched only under the channel lock
# ---------------------------------------------------------------------------
DOMAINS = [
    dict(id="rendezvous", scope=r"^fibre::internal::rendezvous::", lock=r"\.core$|^core$",
         protected=r"internal::rendezvous::Core<|VecDeque<internal::rendezvous::(RecvRec|SenderRec)|Option<internal::rendezvous::RecvRec",
         helpers=r"^(fulfill_receiver|fulfill_sender|disconnect_all|pop_receiver|push_receiver|remove_receiver)$",
         helper_bodies=r"::(fulfill_receiver|fulfill_sender)$|ReceiverStore<T>>::",
         record_state=r"(rec|r|next@Some\.0|pop_front@Some\.0|pop_receiver@Some\.0)\.state$|^state$",
         owner_ok={}),
    dict(id="mpmc-bounded", scope=r"^fibre::mpmc_v2::(core::|sync_impl::|async_impl::|Sender|Receiver|AsyncSender|AsyncReceiver)|^fibre::<mpmc_v2::async_impl::|^fibre::<mpmc_v2::(Async)?(Sender|Receiver)",
         lock=r"\.internal$", protected=r"MpmcChannelInternal<", helpers=r"^$", helper_bodies=r"^$",
         record_state=r"(index|pop_front@Some\.0|front@Some\.0|next@Some\.0|get@Some\.0|waiter|w)\.state$|^state_ptr$",
         owner_ok={r"(self|this|receiver|sender)\.state$|^done_flag$|^state$":
                   "the waiter's own transition to CANCELLED is lock-free by design: the deliverer uses compare_exchange under the lock, so exactly one side wins"}),
    dict(id="mpmc-unbounded", scope=r"^fibre::mpmc_v2::unbounded::shared::", lock=r"\.consumer$", protected=r"ConsumerState<",
         helpers=r"^(fulfill|reclaim|pop_locked|register_waiter|remove_waiter|handoff_session|maybe_handoff)$", helper_bodies=r"WaiterCell::<T>::fulfill$",
         record_state=r"cell\.state$|pop_front@Some\.0\.cell\.state$",
         owner_ok={r"^self\.state$": "WaiterCell methods: rearm runs before registration; fulfill is a helper whose call sites are checked"}),
]


def clause1(P, res):
    rid = "C01-1"
    res.rule(rid, "handoff under the lock: in the rendezvous, bounded-mpmc and unbounded-mpmc cores every write to a queued waiter's state byte, every "
                  "payload move through a waiter's pointers and every call of the transfer helpers happens with the channel mutex held (must-held "
                  "guard analysis), or in a function that can only run under it (takes the protected state by &mut)")
    n = 0
    for dom in DOMAINS:
        srx = re.compile(dom["scope"])
        for b in P.bodies.values():
            if not srx.search(b.id) or not common.in_scope(b.id) or "::tests::" in b.id:
                continue
            by_sig = any(re.search(dom["protected"], b.locals[i].get("ty", "")) and b.locals[i].get("ty", "").startswith("&mut") for i in range(1, b.argc + 1))
            is_helper = bool(re.search(dom["helper_bodies"], b.id))
            locks = [e for e in b.calls() if e.method in ("lock",) and e.args and re.search(dom["lock"], b.path_of_operand(e.args[0]))]
            awaits = [(p, es) for p, src, es in b.awaits() if src is not None and src.method == "lock_async" and src.args and re.search(dom["lock"], b.path_of_operand(src.args[0])) and es]
            acqs = [(l, None) for l in locks] + awaits
            held = mir.guards_held(b, acqs)[0] if acqs else set()
            for e in b.events:
                sens = None
                if e.kind == "call" and e.is_atomic and e.args and (e.method in ("store", "swap") or e.method.startswith("compare_exchange")):
                    p = b.path_of_operand(e.args[0])
                    if re.search(dom["record_state"], p):
                        sens = f"{e.method} on waiter state `{p}`"
                    else:
                        for rx, why in dom["owner_ok"].items():
                            if re.search(rx, p) and p.rsplit(".", 1)[-1] in ("state", "done_flag"):
                                sens = None
                elif e.kind == "call" and re.search(dom["helpers"], e.method or "") and e.callee.startswith("fibre::"):
                    sens = f"call of under-lock helper {e.method}()"
                if not sens:
                    continue
                n += 1
                key = f"{dom['id']}:{b.id}:{e.method}"
                if e.pos in held:
                    res.holds(rid, key, f"{sens}: mutex held", where=e.loc)
                elif by_sig or is_helper:
                    res.holds(rid, key, f"{sens}: function runs under the mutex by construction (" + ("takes the protected state by &mut" if by_sig else "helper; its call sites are checked") + ")",
                              where=e.loc, nontrivial=False)
                else:
                    ownp = b.path_of_operand(e.args[0]) if e.kind == "call" and e.args else ""
                    own = next((why for rx, why in dom["owner_ok"].items() if re.search(rx, ownp)), None) if e.is_atomic else None
                    if own:
                        res.holds(rid, key, f"{sens}: {own}", where=e.loc, nontrivial=False)
                    else:
                        res.violated(rid, key, f"{sens} at {e.loc} without the channel mutex held: the other side decides the same handoff under the lock with an "
                                     "unconditional store, so both sides can conclude differently (sender told Ok, receiver reports Timeout and drops the value)",
                                     where=e.loc)
    if n < 60:
        res.violated(rid, "sensitive-sites", f"expected >= 60 lock-sensitive sites, found {n}")


def clause3(P, res):
    rid = "C01-3"
    res.rule(rid, "publication order and strength: (a) a payload write is followed, before the function returns, by an atomic write >= Release (or by the "
                  "listed publishing callee); a payload read is preceded by an atomic read >= Acquire and happens before the cursor store that "
                  "hands the slot back; (b) on every synchronisation field of spsc/mpsc/mpmc/oneshot/rendezvous/slab-chain (a field with at least "
                  "one Release write and one Acquire read) every write is >= Release and every read >= Acquire, except reasoned, counted exemptions")
    nW, nR = pubsub.check(P, res, rid, lambda b: orderings.module_group(b) in P2P_GROUPS)
    if nW < 8 or nR < 8:
        res.violated(rid, "payload-sites", f"expected >= 8 payload write and >= 8 payload read sites, found {nW}/{nR}")
    verdicts, groups = orderings.evaluate(P, lambda g: g in P2P_GROUPS)
    n = 0
    for grp, fld, b, e, status, detail, key in verdicts:
        n += 1
        k = f"order:{key}"
        if status == "holds":
            res.holds(rid, k, detail, where=e.loc)
        elif status == "exempt":
            res.holds(rid, k, "exempt: " + detail, where=e.loc, nontrivial=False)
        else:
            res.violated(rid, k, detail, where=e.loc)
    if n < 200:
        res.violated(rid, "sync-field-sites", f"expected >= 200 sites on synchronisation fields, found {n}")


def run(P, ctx):
    res = Result("C01")
    res.extra["explanation"] = "Handoff-under-lock, timeout-vs-handoff, publication order/strength and value-returned-on-failure shapes of the point-to-point channels."
    clause1(P, res)
    clause3(P, res)
    return res
