"""C01 — exactly-once delivery on point-to-point channels. DESIGN.md §4 C01."""
import re

import mir
from report import Result
from rules import common, orderings, pubsub

P2P_GROUPS = ("spsc", "mpsc", "mpmc_v2", "oneshot", "internal")


# ---------------------------------------------------------------------------
# C01-1: handoff state and payload pointers are touched only under the channel lock
# ---------------------------------------------------------------------------
DOMAINS = [
    dict(id="rendezvous", scope=r"^fibre::internal::rendezvous::", lock=r"\.core$|^core$",
         protected=r"internal::rendezvous::Core<|VecDeque<internal::rendezvous::(RecvRec|SenderRec)|Option<internal::rendezvous::RecvRec",
         helpers=r"^(fulfill_receiver|fulfill_sender|disconnect_all|pop_receiver|push_receiver|remove_receiver)$",
         helper_bodies=r"::(fulfill_receiver|fulfill_sender)$|ReceiverStore<T>>::",
         record_state=r"(rec|r|next@Some\.0|pop_front@Some\.0|pop_receiver@Some\.0)\.state$|^state$",
         owner_ok={}),
    dict(id="mpmc-bounded", scope=r"^fibre::mpmc_v2::(core::|sync_impl::|async_impl::|Sender|Receiver|AsyncSender|AsyncReceiver)|^fibre::<mpmc_v2::async_impl::|^fibre::<mpmc_v2::(Async)?(Sender|Receiver)",
         lock=r"\.internal$", protected=r"MpmcChannelInternal<", helpers=r"^$", helper_bodies=r"^$",
         record_state=r"(index|pop_front@Some\.0|front@Some\.0|next@Some\.0|get@Some\.0|waiter|w)\.state$|^state_ptr$",
         owner_ok={r"(self|this|receiver|sender)\.state$|^done_flag$|^state$":
                   "the waiter's own transition to CANCELLED is lock-free by design: the deliverer uses compare_exchange under the lock, so exactly one side wins"}),
    dict(id="mpmc-unbounded", scope=r"^fibre::mpmc_v2::unbounded::shared::", lock=r"\.consumer$", protected=r"ConsumerState<",
         helpers=r"^(fulfill|reclaim|pop_locked|register_waiter|remove_waiter|handoff_session|maybe_handoff)$", helper_bodies=r"WaiterCell::<T>::fulfill$",
         record_state=r"cell\.state$|pop_front@Some\.0\.cell\.state$",
         owner_ok={r"^self\.state$": "WaiterCell methods: rearm runs before registration; fulfill is a helper whose call sites are checked"}),
]


def clause1(P, res):
    rid = "C01-1"
    res.rule(rid, "handoff under the lock: in the rendezvous, bounded-mpmc and unbounded-mpmc cores every write to a queued waiter's state byte, every "
                  "payload move through a waiter's pointers and every call of the transfer helpers happens with the channel mutex held (must-held "
                  "guard analysis), or in a function that can only run under it (takes the protected state by &mut)")
    n = 0
    for dom in DOMAINS:
        srx = re.compile(dom["scope"])
        for b in P.bodies.values():
            if not srx.search(b.id) or not common.in_scope(b.id) or "::tests::" in b.id:
                continue
            by_sig = any(re.search(dom["protected"], b.locals[i].get("ty", "")) and b.locals[i].get("ty", "").startswith("&mut") for i in range(1, b.argc + 1))
            is_helper = bool(re.search(dom["helper_bodies"], b.id))
            locks = [e for e in b.calls() if e.method in ("lock",) and e.args and re.search(dom["lock"], b.path_of_operand(e.args[0]))]
            awaits = [(p, es) for p, src, es in b.awaits() if src is not None and src.method == "lock_async" and src.args and re.search(dom["lock"], b.path_of_operand(src.args[0])) and es]
            acqs = [(l, None) for l in locks] + awaits
            held = mir.guards_held(b, acqs)[0] if acqs else set()
            for e in b.events:
                sens = None
                if e.kind == "call" and e.is_atomic and e.args and (e.method in ("store", "swap") or e.method.startswith("compare_exchange")):
                    p = b.path_of_operand(e.args[0])
                    if re.search(dom["record_state"], p):
                        sens = f"{e.method} on waiter state `{p}`"
                    else:
                        for rx, why in dom["owner_ok"].items():
                            if re.search(rx, p) and p.rsplit(".", 1)[-1] in ("state", "done_flag"):
                                sens = None
                elif e.kind == "call" and re.search(dom["helpers"], e.method or "") and e.callee.startswith("fibre::"):
                    sens = f"call of under-lock helper {e.method}()"
                if not sens:
                    continue
                n += 1
                key = f"{dom['id']}:{b.id}:{e.method}"
                if e.pos in held:
                    res.holds(rid, key, f"{sens}: mutex held", where=e.loc)
                elif by_sig or is_helper:
                    res.holds(rid, key, f"{sens}: function runs under the mutex by construction (" + ("takes the protected state by &mut" if by_sig else "helper; its call sites are checked") + ")",
                              where=e.loc, nontrivial=False)
                else:
                    ownp = b.path_of_operand(e.args[0]) if e.kind == "call" and e.args else ""
                    own = next((why for rx, why in dom["owner_ok"].items() if re.search(rx, ownp)), None) if e.is_atomic else None
                    if own:
                        res.holds(rid, key, f"{sens}: {own}", where=e.loc, nontrivial=False)
                    else:
                        res.violated(rid, key, f"{sens} at {e.loc} without the channel mutex held: the other side decides the same handoff under the lock with an "
                                     "unconditional store, so both sides can conclude differently (sender told Ok, receiver reports Timeout and drops the value)",
                                     where=e.loc)
    if n < 60:
        res.violated(rid, "sensitive-sites", f"expected >= 60 lock-sensitive sites, found {n}")


TIMEOUT_BODIES = {
    "fibre::internal::rendezvous::RendezvousShared::<T, R>::recv_timeout": (r"push_receiver", r"cancel_receiver"),
    "fibre::mpmc_v2::sync_impl::recv_timeout_sync": (r"push_back", r"compare_exchange"),
    "fibre::mpmc_v2::unbounded::shared::UnboundedShared::<T>::timeout_finish": (None, r"remove_waiter"),
}


def clause2(P, res):
    rid = "C01-2"
    res.rule(rid, "a timed receive honours a committed handoff: once the receiver is registered as a handoff target, Timeout is returned only on the "
                  "success edge of withdrawing that registration (cancel / remove_waiter / CAS of its own state), or as the outcome of re-reading its "
                  "own state with Acquire; never unconditionally")
    for bid, (reg_rx, cancel_rx) in TIMEOUT_BODIES.items():
        b = P.body(bid)
        if b is None:
            res.unclassified(rid, bid, "timed receive body not found (renamed?)")
            continue
        touts = [e for e in b.events if e.kind == "assign" and e.data["r"]["k"] == "agg" and e.data["r"]["variant"] == "Timeout"]
        regs = [e for e in b.calls() if reg_rx and re.fullmatch(reg_rx, e.method or "") and ("waiting_sync_receivers" in b.path_of_operand(e.args[0]) or e.method != "push_back")]
        ok_edges = []
        for blk in range(len(b.blocks)):
            if b.is_cleanup(blk):
                continue
            s = b.switch_source(blk)
            t = b.term(blk)
            if s and s["kind"] == "call" and re.fullmatch(cancel_rx, s["event"].method or "") and not s["event"].is_atomic:
                ok_edges += b.edges_by_label(blk).get("false" if s.get("neg") else "true", [])
            if s and s["kind"] == "discr" and s.get("def") is not None and s["def"].kind == "call" and s["def"].is_atomic and s["def"].method.startswith("compare_exchange"):
                ok_edges += b.edges_by_label(blk).get("Ok", [])
            if s and s["kind"] == "discr" and b.path_of_place(s["place"]).endswith("registered"):
                ok_edges += b.edges_by_label(blk).get("None", [])
            if t["k"] == "switch" and t.get("on", {}).get("kind") == "int":
                src = b.producer_call(t["o"])
                if src is not None and src.is_atomic and src.method == "load" and src.args and b.path_of_operand(src.args[0]).endswith("state") \
                        and (orderings._ordering(b, src) or ["?"])[0] in orderings.STRONG_R:
                    ok_edges += [(blk, x) for x in b.succ[blk]]
        for i, t in enumerate(touts):
            key = f"{bid}:Timeout#{i}"
            after_reg = (not regs) or any(t.pos in b.pos_reach_set(r.pos) for r in regs)
            if not after_reg:
                res.holds(rid, key, "before any registration: nothing can have been handed off", where=t.loc, nontrivial=False)
            elif ok_edges and b.edges_dominate(ok_edges, t.pos):
                res.holds(rid, key, "behind a successful withdrawal of the registration or a re-read of the waiter state", where=t.loc)
            else:
                res.violated(rid, key, f"Timeout is returned at {t.loc} on a path that neither withdrew the registration successfully nor re-read the waiter state: "
                             "a handoff committed meanwhile is discarded while the sender was told Ok", where=t.loc)
        if not touts:
            res.unclassified(rid, bid, "no Timeout construction found")


def clause3(P, res):
    rid = "C01-3"
    res.rule(rid, "publication order and strength: (a) a payload write is followed, before the function returns, by an atomic write >= Release (or by the "
                  "listed publishing callee); a payload read is preceded by an atomic read >= Acquire and happens before the cursor store that "
                  "hands the slot back; (b) on every synchronisation field of spsc/mpsc/mpmc/oneshot/rendezvous/slab-chain (a field with at least "
                  "one Release write and one Acquire read) every write is >= Release and every read >= Acquire, except reasoned, counted exemptions")
    nW, nR = pubsub.check(P, res, rid, lambda b: orderings.module_group(b) in P2P_GROUPS)
    if nW < 8 or nR < 8:
        res.violated(rid, "payload-sites", f"expected >= 8 payload write and >= 8 payload read sites, found {nW}/{nR}")
    verdicts, groups = orderings.evaluate(P, lambda g: g in P2P_GROUPS)
    n = 0
    for grp, fld, b, e, status, detail, key in verdicts:
        n += 1
        k = f"order:{key}"
        if status == "holds":
            res.holds(rid, k, detail, where=e.loc)
        elif status == "exempt":
            res.holds(rid, k, "exempt: " + detail, where=e.loc, nontrivial=False)
        else:
            res.violated(rid, k, detail, where=e.loc)
    if n < 200:
        res.violated(rid, "sync-field-sites", f"expected >= 200 sites on synchronisation fields, found {n}")


SINGLE_ENDPOINT = {
    # handle ADT -> why only one thread may operate it at a time
    "fibre::spsc::bounded_sync::BoundedSyncSender": "spsc producer side of the Lamport ring (unsynchronised cached_head)",
    "fibre::spsc::bounded_sync::BoundedSyncReceiver": "spsc consumer side (unsynchronised cached_tail)",
    "fibre::spsc::bounded_async::BoundedAsyncSender": "spsc producer side",
    "fibre::spsc::bounded_async::BoundedAsyncReceiver": "spsc consumer side",
    # (mpsc bounded receivers and the oneshot receiver are not listed: their consumer cursor / take is itself
    #  synchronised — Mutex<Head>, CAS SENT->TAKEN — so sharing them is memory-safe and exactly-once by construction)
    "fibre::mpsc::unbounded_v3::consumer::Receiver": "mpsc single consumer (tail cursor)",
    "fibre::mpsc::unbounded_v3::consumer::AsyncReceiver": "mpsc single consumer",
}
OBS = {"is_closed", "capacity", "len", "is_empty", "is_full", "sender_count", "receiver_count", "close", "fmt", "drop", "clone", "is_sent"}


def clause4(P, res):
    rid = "C01-4"
    res.rule(rid, "failure hands the value back / endpoints are exclusive: (a) in every construction of TrySendBatchError / SendBatchError the `unsent` "
                  "operand is data-derived from the items the caller passed in (argument, mapped error or the future's own iterator), never built from "
                  "nothing; (b) single-endpoint handles are not Clone and are either !Sync or expose their send/receive operations only through "
                  "&mut self, so safe code cannot run two producers (consumers) on a single-producer (single-consumer) structure")
    n = 0
    for b in P.bodies.values():
        if not b.id.startswith("fibre::") or not common.in_scope(b.id) or "::tests::" in b.id or b.impl_trait == "core::clone::Clone":
            continue
        for e in b.events:
            if e.kind == "assign" and e.data["r"]["k"] == "agg" and re.search(r"error::(TrySendBatchError|SendBatchError)$", e.data["r"]["adt"]):
                r = e.data["r"]
                ops = dict(zip(r["fields"], r["ops"]))
                u = ops.get("unsent")
                n += 1
                key = f"{b.id}:unsent@{[x for x in b.events if x.kind == 'assign' and x.data['r'].get('adt') == r['adt']].index(e)}"
                if u is None:
                    res.unclassified(rid, key, "batch error without an `unsent` field", where=e.loc)
                    continue
                evs, args, consts = mir.operand_sources(b, u)
                carriers = [a for a in args if re.search(r"Vec<|IntoIter|Iterator|BatchError|Future|&mut|I$", b.locals[a].get("ty", "")) or b.local_name(a) in ("items", "e", "self", "iter")]
                if carriers:
                    res.holds(rid, key, f"unsent derives from `{b.local_name(carriers[0])}`", where=e.loc)
                else:
                    res.violated(rid, key, f"the batch error built at {e.loc} carries an `unsent` that does not come from the caller's items: values the channel "
                                 "did not accept are dropped instead of being handed back", where=e.loc)
    if n < 40:
        res.violated(rid, "batch-error-sites", f"expected >= 40 batch-error constructions, found {n}")
    hs = common.handles(P)
    for adt, why in SINGLE_ENDPOINT.items():
        a = P.adts.get(adt)
        key = f"endpoint:{adt}"
        if a is None:
            res.unclassified(rid, key, "single-endpoint handle type not found (renamed?)")
            continue
        if P.has_impl(adt, "core::clone::Clone"):
            res.violated(rid, key, f"{adt.rsplit('::', 1)[-1]} is Clone: two handles can drive the {why}")
            continue
        is_sync = a.get("sync_u64")
        shared_ops = []
        for m in P.methods_of(adt, inherent_only=True):
            if m.vis != "pub" or m.name in OBS or m.name.startswith("to_"):
                continue
            t1 = m.locals[1].get("ty", "") if m.argc >= 1 else ""
            if t1.startswith("&") and not t1.startswith("&mut"):
                shared_ops.append(m.name)
        if not is_sync:
            res.holds(rid, key, "not Clone and !Sync: a shared reference cannot cross threads", where=f"{a['file']}:{a['line']}")
        elif not shared_ops:
            res.holds(rid, key, "not Clone; Sync, but every operation takes &mut self", where=f"{a['file']}:{a['line']}")
        else:
            res.violated(rid, key, f"{adt.rsplit('::', 1)[-1]} is Sync and {sorted(shared_ops)[:6]} take &self: two threads can operate the {why} concurrently from safe code",
                         where=f"{a['file']}:{a['line']}")


def clause5(P, res):
    rid = "C01-5"
    res.rule(rid, "claimed-run hand-off (mpsc bounded batch sends): `claim_run` returns how many of the claimed tickets are inside the window (`valid`); at every "
                  "`resolve_run(t, valid, m, iter)` the iterator removes exactly that many items from the caller's source — it is `.take(valid)` or `drain(..valid)` "
                  "with the very same `valid`. A larger bound drops the overshoot items (never delivered, not left unsent); a smaller one publishes fewer than counted")
    n = m = 0
    for b in P.bodies.values():
        if not b.id.startswith("fibre::mpsc::bounded_v3::") and not b.id.startswith("fibre::<mpsc::bounded_v3::"):
            continue
        for e in b.calls():
            if e.method != "resolve_run" or len(e.args) < 5:
                continue
            n += 1
            key = f"{b.id}:resolve_run#{sum(1 for x in b.calls() if x.method == 'resolve_run' and x.pos < e.pos)}"
            valid = b.path_of_operand(e.args[2])
            src = b.producer_call(e.args[4])
            bound = None
            if src is not None and src.method == "take" and len(src.args) >= 2:
                bound = b.path_of_operand(src.args[1])
            elif src is not None and src.method == "drain" and len(src.args) >= 2:
                de = b.def_event_of_operand(src.args[1])
                if de is not None and de.kind == "assign" and de.data["r"]["k"] == "agg" and de.data["r"]["adt"].endswith("RangeTo"):
                    bound = b.path_of_operand(de.data["r"]["ops"][0])
            if bound is None:
                res.unclassified(rid, key, f"resolve_run at {e.loc}: iterator is neither .take(n) nor drain(..n) (found {src.method if src else 'no producing call'})", where=e.loc)
            elif bound == valid and valid:
                res.holds(rid, key, f"iterator bounded by `{bound}`, the same value passed as `valid`", where=e.loc)
            else:
                res.violated(rid, key, f"resolve_run at {e.loc} is told {valid or '?'} items are valid but its iterator is bounded by `{bound}`: items beyond `valid` are pulled "
                             "out of the caller's batch and dropped without being sent or reported unsent", where=e.loc)
        # the caller's progress counter advances by the same `valid` (tickets actually filled), never by `m` (tickets claimed, including SKIP tombstones)
        rr = [e for e in b.calls() if e.method == "resolve_run" and len(e.args) >= 5]
        if rr:
            valid_paths = {b.path_of_operand(e.args[2]) for e in rr}
            claimed_paths = {b.path_of_operand(e.args[3]) for e in rr}
            k = 0
            for ev in b.events:
                if ev.kind == "assign" and ev.data["r"]["k"] == "bin" and ev.data["r"]["op"] in ("AddWithOverflow", "Add", "AddUnchecked"):
                    acc = b.path_of_operand(ev.data["r"]["a"])
                    if not re.search(r"(^|\.)sent$", acc):
                        continue
                    inc = b.path_of_operand(ev.data["r"]["b"])
                    if inc in valid_paths:
                        m += 1
                        res.holds(rid, f"{b.id}:sent+=#{k}", "progress counter advances by `valid`", where=ev.loc)
                    elif inc in claimed_paths:
                        m += 1
                        res.violated(rid, f"{b.id}:sent+=#{k}", f"the sent counter advances by the number of tickets claimed (`m`) at {ev.loc}, which includes SKIP tombstones that carry "
                                     "no value: the call reports items as sent that are still in (and then dropped with) the caller's iterator", where=ev.loc)
                    k += 1
    if n < 5:
        res.violated(rid, "resolve_run-sites", f"expected >= 5 resolve_run call sites, found {n}")
    if m < 4:
        res.violated(rid, "sent-counter-sites", f"expected >= 4 `sent += valid` sites next to resolve_run, found {m}")


def clause6(P, res):
    rid = "C01-6"
    res.rule(rid, "reset-on-drain (mpsc bounded): the consumer never moves its cursor past a slot whose state it has not put back to EMPTY — in deq_once / deq_run every "
                  "advance of the consumer position is dominated by a store of EMPTY to that slot's state (value slots and SKIP tombstones alike). A tombstone left behind is "
                  "read again after the chunk table wraps: the consumer steps over a ticket a producer has claimed, that send returns Ok and its value is never received")
    n = 0
    for b in P.bodies.values():
        if not re.search(r"^fibre::mpsc::bounded_v3::shared::Shared::<T>::deq_(once|run)$", b.id):
            continue
        adv = [e for e in b.events if e.kind == "assign" and e.data["r"]["k"] == "bin" and e.data["r"]["op"].startswith("Add")
               and re.search(r"\.pos$", b.path_of_operand(e.data["r"]["a"]))]
        resets = [e for e in b.calls() if e.is_atomic and e.method == "store" and len(e.args) > 1 and b.path_of_operand(e.args[0]).endswith(".state")
                  and str((b.const_of_operand(e.args[1]) or {}).get("path", "")).endswith("EMPTY")]
        if not adv:
            res.unclassified(rid, b.id, "no consumer-position advance found (the cursor field is no longer `.pos`?)", where=f"{b.file}:{b.line}")
            continue
        n += 1
        bad = [a for a in adv if not (resets and b.dominated_by_any(a.pos, {r.pos for r in resets}))]
        if bad:
            res.violated(rid, b.id, f"the consumer position advances at {bad[0].loc} on a path that did not store EMPTY to the slot's state: a drained SKIP tombstone (or value "
                         "slot) keeps its old state and is misread on the next lap", where=bad[0].loc)
        else:
            res.holds(rid, b.id, f"{len(adv)} cursor advance(s), each behind a reset of the slot state", where=adv[0].loc)
    if n < 2:
        res.violated(rid, "dequeue-bodies", f"expected deq_once and deq_run of the bounded mpsc, found {n}")


def clause7(P, res):
    rid = "C01-7"
    res.rule(rid, "a waiter withdraws only by compare-and-swap: in the hand-off cores (rendezvous, mpmc waiter queues, mpmc-unbounded cells) the waiter state is moved to a "
                  "CANCELLED constant only by compare_exchange from the WAITING constant, never by a plain store — the deliverer commits with a store/CAS to DONE under "
                  "the channel lock, and an unconditional CANCELLED overwrites a committed hand-off: the sender was told Ok, the receiver reports Timeout and the value is "
                  "dropped (a state *load* made before taking the lock does not help: the deliverer can win the lock in between)")
    n = 0
    for b in P.bodies.values():
        if not b.id.startswith("fibre::") or "::tests::" in b.id or not common.in_scope(b.id):
            continue
        for e in b.calls():
            if not (e.is_atomic and e.args):
                continue
            consts = [str((b.const_of_operand(a) or {}).get("path", "")) for a in e.args[1:]]
            if not any(c.endswith("CANCELLED") for c in consts):
                continue
            if "state" not in b.path_of_operand(e.args[0]).rsplit(".", 1)[-1] and "state" not in b.path_of_operand(e.args[0]):
                continue
            n += 1
            key = f"{b.id}:{e.method}#{sum(1 for x in b.calls() if x.is_atomic and x.pos < e.pos)}"
            if e.method in ("compare_exchange", "compare_exchange_weak") and len(consts) >= 2 and consts[1].endswith("CANCELLED") and consts[0].endswith("WAITING"):
                res.holds(rid, key, "WAITING -> CANCELLED by compare_exchange", where=e.loc)
            elif e.method in ("compare_exchange", "compare_exchange_weak") and consts and consts[0].endswith("CANCELLED"):
                res.holds(rid, key, "compare_exchange *from* CANCELLED (re-arming / clean-up)", where=e.loc, nontrivial=False)
            elif e.method in ("store", "swap", "fetch_or", "fetch_and"):
                res.violated(rid, key, f"the waiter state is set to CANCELLED by {e.method} at {e.loc}: a hand-off committed by the other side just before is overwritten "
                             "(sender Ok, receiver Timeout, value dropped)", where=e.loc)
            else:
                res.unclassified(rid, key, f"CANCELLED written by {e.method} with operands {consts}", where=e.loc)
    if n < 4:
        res.violated(rid, "cancel-sites", f"expected >= 4 WAITING->CANCELLED transitions in the hand-off cores, found {n}")


def run(P, ctx):
    res = Result("C01")
    res.extra["explanation"] = "Handoff-under-lock, timeout-vs-handoff, publication order/strength and value-returned-on-failure shapes of the point-to-point channels."
    clause1(P, res)
    clause2(P, res)
    clause3(P, res)
    clause4(P, res)
    clause5(P, res)
    clause6(P, res)
    clause7(P, res)
    return res
