"""C14 — eviction-policy contracts (structural clauses only). DESIGN.md §9.8.

What is decided is the *shape* every built-in policy shares, not the policies' bookkeeping as such:

  C14-1  every nominated victim is a key the policy just stopped tracking, and the cost it reports for it is the
         recorded cost of that same record
  C14-2  a resident key leaves the tracking structures only to be nominated, to be re-tracked, or because the
         policy was told it is gone (on_remove / clear)
  C14-3  every path through on_admit records the cost it was given (re-admission updates the cost)
  C14-4  on_access never starts tracking a key: insertion-capable calls are behind a "tracked" test of that key
  C14-5  paired bookkeeping structures of one policy (order list + record map; arena + lookup) are updated together
  C14-6  the LruList running total moves with every node insertion/removal, by that node's cost
  C14-7  LRU moves on access and evicts from the back; FIFO does not reorder on access or re-admission

Which victim a policy picks (segment sizes, ghost adaptation, sketch estimates, the clock hand) is value-level and not decided.
"""
import re

import mir
from report import Result
from rules import cachelib as cl

SCOPE = re.compile(r"^fibre_cache::(<policy::|policy::)")
SKIP = re.compile(r"::tests?::|::cms::|policy::null::|as core::fmt::Debug|as core::clone::Clone|as core::default::Default")

LRULIST = "fibre_cache::policy::lru_list::LruList::<K>::"
HASHMAP = "std::collections::hash::map::HashMap::<K, V, S, A>::"
VECDEQUE = "alloc::collections::vec_deque::VecDeque::<T, A>::"
VEC = "alloc::vec::Vec::<T, A>::"
ARENA = "generational_arena::"

# base operations on the structures policies are built from: callee def -> kind
REMOVERS = {
    LRULIST + "remove": "key", LRULIST + "pop_back": "result",
    HASHMAP + "remove": "key", HASHMAP + "remove_entry": "key",
    VECDEQUE + "remove": "index", VECDEQUE + "pop_front": "result", VECDEQUE + "pop_back": "result", VECDEQUE + "retain": "pred",
    VEC + "remove": "index", VEC + "swap_remove": "index", VEC + "pop": "result", VEC + "retain": "pred",
}
INSERTERS = {
    LRULIST + "push_front": 1, HASHMAP + "insert": 1, VECDEQUE + "push_front": 1, VECDEQUE + "push_back": 1, VEC + "push": 1,
}
COST_WRITERS = {LRULIST + "push_front", LRULIST + "update_cost", HASHMAP + "insert"}
CLEARERS = {LRULIST + "clear", HASHMAP + "clear", VECDEQUE + "clear", VEC + "clear"}
TRACKED_TESTS = {  # callee -> (label on which the key is known to be tracked, kind)
    LRULIST + "contains": "true", HASHMAP + "contains_key": "true",
}

# Receivers that hold *non-resident* history (ghost lists): leaving them is not "stops tracking a resident".
GHOSTS = {
    "fibre_cache::policy::arc::": {".b1": "ARC ghost list of keys recently evicted from T1 (not resident)",
                                   ".b2": "ARC ghost list of keys recently evicted from T2 (not resident)"},
}
# Paired structures (C14-5): ADT -> (field a, field b, reason)
PAIRS = {
    "sieve": ("items", "order", "SieveState keeps one record per key in `items` and its queue position in `order`"),
    "clock": ("items", "order", "ClockState keeps one record per key in `items` and its ring position in `order`"),
}
# policy-scope helpers that take part in the contract; filled by summaries below and checked against this table
REMOVER_HELPERS_EXPECTED = {
    "fibre_cache::policy::arc::ArcState::<K>::replace": "demotes the chosen T1/T2 tail to a ghost list and returns it",
    "fibre_cache::policy::slru::SlruState::<K>::evict_items": "pops victims from probationary then protected and returns them",
}
INSERT_HELPERS = {
    "fibre_cache::policy::slru::SlruState::<K>::admit_internal": "tracks the key in the probationary segment (guards on contains itself)",
}
ACCESS_HELPERS = {
    "fibre_cache::policy::slru::SlruState::<K>::access_internal": "promotes an already tracked key; checked by C14-4 like on_access",
    "fibre_cache::policy::slru::SlruPolicy::<K>::access_internal": "locks and forwards to SlruState::access_internal",
}
TOLD_BODIES = re.compile(r"::on_remove$|::clear$|::on_remove::\{closure#\d+\}$")
LIST_INTERNALS = re.compile(r"^fibre_cache::policy::lru_list::LruList::<K>::")


def SRC(b, op):
    return mir.operand_sources(b, op, through_ptr=True)


def bodies(P):
    return [b for b in P.bodies.values() if SCOPE.match(b.id) and not SKIP.search(b.id)]


def policy_of(b):
    m = re.search(r"policy::(\w+)::", b.id)
    return m.group(1) if m else "?"


def trait_method(b, name):
    return b.impl_trait == "fibre_cache::policy::CachePolicy" and b.kind == "method" and b.name == name


def recv_path(b, e):
    return b.path_of_operand(e.args[0]) if e.args else ""


def is_local_collection(b, e):
    """receiver is a collection created in this body (victims, rejected_candidates), not policy state"""
    if not e.args:
        return False
    p = mir.op_place(e.args[0])
    if p is None:
        return False
    oc = b.origin_call(e.args[0])
    root = oc
    n = 0
    while root is not None and n < 6 and root.callee in mir.TRANSPARENT_METHODS:
        root = b.origin_call(root.args[0]) if root.args else None
        n += 1
    if root is not None and root.kind == "call":
        c = root.callee
        if c.startswith(VEC[:-len("<T, A>::")]) or c in ("alloc::vec::Vec::<T>::new", "alloc::vec::Vec::<T>::with_capacity"):
            return True
        if c.endswith("::collect") or c == "core::iter::traits::iterator::Iterator::collect":
            return True
    return False


def is_state_receiver(b, e):
    if not e.args or is_local_collection(b, e):
        return False
    path = recv_path(b, e)
    if path.startswith("const:") or path == "?":
        return False
    return True


def ghost_reason(b, e):
    path = recv_path(b, e)
    for pref, tbl in GHOSTS.items():
        if pref in b.id or pref.replace("policy::", "<policy::") in b.id:
            for suf, why in tbl.items():
                if path.endswith(suf):
                    return why
    return None


def non_receiver_sources(b, e):
    """(events, arg locals) feeding the non-receiver arguments of a call"""
    evs, args = set(), set()
    for a in e.args[1:]:
        ev, ar, _ = SRC(b, a)
        evs |= set(ev)
        args |= ar
    return evs, args


def related(b, op, R):
    """operand `op` is the thing R removed: derived from R's result, or built from the same key/index R was given"""
    ev, ar, _ = SRC(b, op)
    if R in ev:
        return True
    rev, rar = non_receiver_sources(b, R)
    # shared argument local (the `key` parameter) or a shared producing event other than plain lock/deref plumbing
    if ar & rar:
        return True
    shared = {x for x in (set(ev) & rev) if not (x.kind == "call" and (x.callee in mir.TRANSPARENT_METHODS or x.method in ("lock", "deref", "deref_mut", "len")))}
    return bool(shared)


def nothing_removed_edges(b, R):
    """edges on which R is known to have removed nothing: None arm of a match on its result, false edge of
    `.is_some()`, true edge of `.is_none()` on it"""
    out = list(cl.result_switch_edges(b, R, "None"))
    dest = R.data["d"][0]
    al = mir.alias_locals(b, dest)
    for e in b.calls():
        if e.method in ("is_some", "is_none") and e.callee.startswith("core::option::Option::<T>::") and e.args:
            p = mir.op_place(e.args[0])
            src = b.producer_call(e.args[0])
            if (p is not None and p[0] in al) or src is R:
                for blk in range(len(b.blocks)):
                    if b.is_cleanup(blk):
                        continue
                    ss = b.switch_source(blk) if b.term(blk)["k"] == "switch" else None
                    if ss and ss.get("kind") == "call" and ss["event"] is e:
                        lab = "false" if (e.method == "is_some") != ss.get("neg", False) else "true"
                        out.extend(b.edges_by_label(blk).get(lab, []))
    return out


def remover_helpers(P):
    """policy-scope functions whose return value is derived from a base removal on policy state (fixpoint, 2 rounds)"""
    found = {}
    for _ in range(3):
        for b in bodies(P):
            if b.id in found or TOLD_BODIES.search(b.id) or LIST_INTERNALS.match(b.id) or b.impl_trait:
                continue
            rems = [e for e in b.calls() if (e.callee in REMOVERS or e.callee_resolved in found) and is_state_receiver(b, e) and not ghost_reason(b, e)]
            if not rems:
                continue
            rets = [e for e in b.events if e.kind == "assign" and e.data["p"][0] == 0]
            rets += [e for e in b.calls() if e.data["d"][0] == 0]
            for r in rets:
                ops = []
                if r.kind == "assign":
                    rv = r.data["r"]
                    ops = [rv[k] for k in ("o", "a", "b") if isinstance(rv.get(k), dict)] + list(rv.get("ops", []) or [])
                else:
                    ops = list(r.args)
                if any(set(rems) & set(SRC(b, o)[0]) for o in ops):
                    found[b.id] = rems
                    break
    return found


def removal_sites(P, b, helpers):
    out = []
    for e in b.calls():
        if e.callee in REMOVERS and is_state_receiver(b, e):
            out.append((e, REMOVERS[e.callee]))
        elif e.callee_resolved in helpers or e.callee in helpers:
            out.append((e, "result"))
    return out


def rehome_events(P, b, R, helpers):
    """events that give the removed key a new home: a push into a collection that is returned, an insert into policy
    state, an insert helper, or the function's own return value being built from it"""
    out = []
    for e in b.calls():
        if e is R:
            continue
        if e.callee in INSERTERS and len(e.args) > 1:
            if is_local_collection(b, e) or (is_state_receiver(b, e) and not ghost_reason(b, e)):
                if related(b, e.args[1], R):
                    out.append(e)
        elif (e.callee in INSERT_HELPERS or e.callee in ACCESS_HELPERS) and len(e.args) > 1 and related(b, e.args[1], R):
            out.append(e)
        elif e.data["d"][0] == 0 and any(R in SRC(b, a)[0] for a in e.args):
            out.append(e)
    for e in b.events:
        if e.kind == "assign" and e.data["p"][0] == 0:
            rv = e.data["r"]
            ops = [rv[k] for k in ("o", "a", "b") if isinstance(rv.get(k), dict)] + list(rv.get("ops", []) or [])
            if any(R in SRC(b, o)[0] for o in ops):
                out.append(e)
    return out


def clause1(P, res, helpers):
    rid = "C14-1"
    res.rule(rid, "in every evict body (and victim-returning helper) each key pushed into the victims vector is related to a removal from the "
                  "policy's tracking structures on that path (its result, or the same key/index), and the amount added to the freed total "
                  "is data-derived from such a removal (the record's own cost)")
    n = 0
    for b in bodies(P):
        if not (trait_method(b, "evict") or b.id in helpers and b.name == "evict_items"):
            continue
        rems = [r for r, _ in removal_sites(P, b, helpers) if not ghost_reason(b, r)]
        pushes = [e for e in b.calls() if e.callee == VEC + "push" and is_local_collection(b, e) and len(e.args) > 1]
        acc = set()
        for t in b.events:
            if t.kind == "assign" and t.data["p"][0] == 0 and t.data["r"]["k"] == "tuple" and len(t.data["r"]["ops"]) == 2:
                pl = mir.op_place(t.data["r"]["ops"][1])
                if pl is not None:
                    acc |= mir.alias_locals(b, pl[0]) | {pl[0]}
                    # the accumulator proper: follow plain copies backwards
                    for x in b.events:
                        if x.kind == "assign" and x.data["p"][0] in acc and x.data["r"]["k"] == "use" and mir.op_place(x.data["r"]["o"]) is not None:
                            acc.add(mir.op_place(x.data["r"]["o"])[0])
        adds = [e for e in b.events if e.kind == "assign" and e.data["r"]["k"] == "bin" and e.data["r"]["op"] in ("AddWithOverflow", "Add")
                and mir.op_place(e.data["r"]["a"]) is not None and mir.op_place(e.data["r"]["a"])[0] in acc]
        if not pushes and not adds:
            # pure delegation: the return value must come from a helper that is itself checked
            deleg = [e for e in b.calls() if e.callee_resolved in helpers or e.callee in helpers]
            if deleg and any(e.data["d"][0] == 0 for e in deleg):
                res.holds(rid, f"{b.id}:delegates", f"returns the victims of {deleg[0].callee} unchanged", where=deleg[0].loc, nontrivial=False)
            elif b.id.endswith("NullPolicy as policy::CachePolicy<K, V>>::evict"):
                pass
            else:
                res.unclassified(rid, f"{b.id}:shape", "evict body with neither a victims push nor a delegation the rule recognises", where=f"{b.file}:{b.line}")
            continue
        for i, p in enumerate(pushes):
            n += 1
            key = f"{b.id}:victim#{i}"
            rel = [r for r in rems if related(b, p.args[1], r) and (b.dominated_by_any(p.pos, {r.pos}) or b.pos_reaches(r.pos, {p.pos}))]
            if rel:
                res.holds(rid, key, f"victim `{b.path_of_operand(p.args[1])}` is what {rel[0].callee.rsplit('::', 1)[-1]} at {rel[0].loc} removed", where=p.loc,
                          witness=[f"push {p.loc}"] + [f"removal {r.loc} {r.callee}" for r in rel])
            else:
                res.violated(rid, key, f"key `{b.path_of_operand(p.args[1])}` is nominated at {p.loc} without being taken out of the policy's tracking structures: "
                             "it can be nominated again, or was never tracked", where=p.loc, witness=[f"push {p.loc}"] + [f"removal {r.loc}" for r in rems])
        for i, a in enumerate(adds):
            key = f"{b.id}:freed#{i}"
            srcs, _, _ = SRC(b, a.data["r"]["b"])
            if set(srcs) & set(rems):
                res.holds(rid, key, "freed total grows by the removed record's cost", where=a.loc)
            else:
                res.violated(rid, key, f"the amount added to the freed total at {a.loc} (`{b.path_of_operand(a.data['r']['b'])}`) is not derived from a record "
                             "removed from the tracking structures", where=a.loc)
    return n


def clause2(P, res, helpers):
    rid = "C14-2"
    res.rule(rid, "a resident key is taken out of a policy's tracking structures only in on_remove/clear, or on a path that then nominates it "
                  "(victims / AdmitAndEvict / returned to the caller) or re-tracks it (insert into a resident structure): no path drops it silently")
    for hid, why in REMOVER_HELPERS_EXPECTED.items():
        if hid not in helpers:
            res.unclassified(rid, f"{hid}:helper", f"expected victim-returning helper not found ({why}); the helper table needs review", where="rules/c14.py")
    for hid in helpers:
        if hid not in REMOVER_HELPERS_EXPECTED:
            res.unclassified(rid, f"{hid}:helper", "new function returns keys it removed from policy state; add it to REMOVER_HELPERS_EXPECTED after reading it", where="rules/c14.py")
    n = 0
    for b in bodies(P):
        if TOLD_BODIES.search(b.id) or LIST_INTERNALS.match(b.id):
            continue
        for R, kind in removal_sites(P, b, helpers):
            if ghost_reason(b, R):
                continue
            n += 1
            key = f"{b.id}:{R.callee.rsplit('::', 1)[-1]}@{recv_path(b, R)}"
            # disambiguate several removals of the same kind on the same receiver
            k2, i = key, 1
            while any(x.key.endswith(k2) for x in res.instances if x.rule == rid):
                i += 1
                k2 = f"{key}#{i}"
            key = k2
            if R.data["d"][0] == 0:
                res.holds(rid, key, "what it removed is this function's return value (the caller is checked)", where=R.loc, nontrivial=False)
                continue
            re_ev = rehome_events(P, b, R, helpers)
            excused = frozenset(nothing_removed_edges(b, R))
            reach = b.pos_reach_set(R.pos, removed=frozenset(e.pos for e in re_ev), removed_edges=excused, strict=True)
            if reach & set(b.exits()):
                res.violated(rid, key, f"{R.callee.rsplit('::', 1)[-1]} at {R.loc} takes a key out of `{recv_path(b, R)}` and a path reaches the exit without nominating "
                             "or re-tracking it: the entry stays resident but can never be evicted", where=R.loc,
                             witness=[f"removal {R.loc}"] + [f"re-home {e.loc}" for e in re_ev])
            else:
                res.holds(rid, key, "re-homed on every path: " + ", ".join(sorted({(e.callee.rsplit('::', 1)[-1] if e.kind == 'call' else 'return value') for e in re_ev})),
                          where=R.loc, witness=[f"removal {R.loc}"] + [f"re-home {e.loc}" for e in re_ev])
    return n


def cost_param(b):
    """the u64 parameter (the trait fixes the signature: on_admit(&self, key: &K, cost: u64)) — selected by type, not by name"""
    c = [i for i in range(2, b.argc + 1) if b.locals[i].get("ty") == "u64"]
    return c[0] if len(c) >= 1 else None


def key_params(b):
    """parameters that are a key or a reference to one (type K / &K) — selected by type, not by name"""
    return {i for i in range(2, b.argc + 1) if b.locals[i].get("ty") in ("&K", "K", "&'_ K")} or {2}


def clause3(P, res):
    rid = "C14-3"
    res.rule(rid, "every path through a policy's on_admit hands the cost it was given to the tracking structures (insert, push_front, update_cost, "
                  "an access/admit helper, or a write to the record's cost field): re-admitting a tracked key updates its recorded cost")
    for b in bodies(P):
        if not trait_method(b, "on_admit"):
            continue
        cp = cost_param(b)
        key = f"{b.id}"
        if cp is None:
            res.unclassified(rid, key, "on_admit without a parameter named cost", where=f"{b.file}:{b.line}")
            continue
        sinks = []
        for e in b.calls():
            if not e.args or not is_state_receiver(b, e) or ghost_reason(b, e):
                continue
            if e.callee in COST_WRITERS or e.callee in INSERT_HELPERS or e.callee in ACCESS_HELPERS:
                for a in e.args[1:]:
                    if cp in SRC(b, a)[1]:
                        sinks.append(e)
                        break
        for e in b.events:
            if e.kind == "assign" and e.data["p"][1] and e.data["p"][1][-1] in (".cost", ".^cost"):
                rv = e.data["r"]
                if rv["k"] == "use" and cp in SRC(b, rv["o"])[1]:
                    sinks.append(e)
        if sinks and cl.all_paths_pass(b, [(0, 0)], [s.pos for s in sinks]):
            res.holds(rid, key, f"cost recorded on every path ({len(sinks)} sink(s))", where=f"{b.file}:{b.line}", witness=[f"sink {s.loc}" for s in sinks])
        else:
            res.violated(rid, key, "a path through on_admit returns without recording the cost it was given: a key that is already tracked keeps its stale cost, "
                         "evict() then budgets and reports with the old number", where=f"{b.file}:{b.line}", witness=[f"sink {s.loc}" for s in sinks])


def clause3b(P, res):
    rid = "C14-3"
    # helpers that some on_admit hands its cost parameter to (directly, or through a locking forwarder)
    used = set()
    for ob in bodies(P):
        if not trait_method(ob, "on_admit"):
            continue
        ocp = cost_param(ob)
        for e in ob.calls():
            if (e.callee in ACCESS_HELPERS or e.callee in INSERT_HELPERS) and ocp is not None and any(ocp in SRC(ob, a)[1] for a in e.args[1:]):
                used.add(e.callee)
    for hid in sorted(used):
        b = P.body(hid)
        if b is None:
            continue
        fw = [e for e in b.calls() if e.callee in ACCESS_HELPERS or e.callee in INSERT_HELPERS]
        if fw and not any(e.callee in COST_WRITERS for e in b.calls()):
            b = P.body(fw[0].callee) or b  # a locking forwarder: judge the function it forwards to
            hid = b.id
        cp = cost_param(b)
        if cp is None:
            res.unclassified(rid, f"{hid}:helper", "helper used as a cost sink has no u64 parameter", where=f"{b.file}:{b.line}")
            continue
        sinks = []
        for e in b.calls():
            if e.args and is_state_receiver(b, e) and (e.callee in COST_WRITERS or e.callee in INSERT_HELPERS or e.callee in ACCESS_HELPERS):
                if any(cp in SRC(b, a)[1] for a in e.args[1:]):
                    sinks.append(e)
        edges = tracked_edges(b, key_params(b) | {i for i in range(2, b.argc + 1) if b.locals[i].get("ty") in ("K", "&K")})
        starts = [(t, 0) for _, t in edges]
        key = f"{hid}:tracked-path"
        if not edges:
            res.unclassified(rid, key, "helper used as a cost sink has no tracked-test the rule recognises", where=f"{b.file}:{b.line}")
        elif sinks and cl.all_paths_pass(b, starts, [x.pos for x in sinks]):
            res.holds(rid, key, f"every path on which the key was found tracked records the given cost ({len(sinks)} sink(s))", where=f"{b.file}:{b.line}")
        else:
            res.violated(rid, key, f"{b.name} finds the key tracked and returns without recording the cost it was given: callers (on_admit of the policies built on it) rely on "
                         "this helper to update the recorded cost of a re-admitted key", where=f"{b.file}:{b.line}", witness=[f"sink {x.loc}" for x in sinks])


def tracked_edges(b, key_args):
    """edges on which the key (one of the argument locals in key_args) is known to be tracked"""
    out = []
    for e in b.calls():
        lab = None
        if e.callee in TRACKED_TESTS and len(e.args) > 1 and (SRC(b, e.args[1])[1] & key_args):
            lab = "call"
            test = e
        elif e.callee in (LRULIST + "remove", HASHMAP + "remove", HASHMAP + "get_mut", HASHMAP + "get") and len(e.args) > 1 and (SRC(b, e.args[1])[1] & key_args):
            out.extend(cl.result_switch_edges(b, e, "Some"))
            for s in b.calls():
                if s.method == "is_some" and s.callee.startswith("core::option::Option::<T>::") and s.args and b.producer_call(s.args[0]) is e:
                    for blk in range(len(b.blocks)):
                        if not b.is_cleanup(blk) and b.term(blk)["k"] == "switch":
                            ss = b.switch_source(blk)
                            if ss and ss.get("kind") == "call" and ss["event"] is s:
                                out.extend(b.edges_by_label(blk).get("false" if ss.get("neg") else "true", []))
            continue
        if lab:
            for blk in range(len(b.blocks)):
                if not b.is_cleanup(blk) and b.term(blk)["k"] == "switch":
                    ss = b.switch_source(blk)
                    if ss and ss.get("kind") == "call" and ss["event"] is test:
                        out.extend(b.edges_by_label(blk).get("false" if ss.get("neg") else "true", []))
    return out


def clause4(P, res):
    rid = "C14-4"
    res.rule(rid, "on_access (and the access helpers it forwards to) never starts tracking a key: every insertion-capable call on policy state lies "
                  "behind the success edge of a tracked-test of the accessed key (contains / remove(..).is_some() / get_mut Some)")
    for b in bodies(P):
        if not (trait_method(b, "on_access") or b.id in ACCESS_HELPERS):
            continue
        key_args = key_params(b)
        ins = [e for e in b.calls() if (e.callee in INSERTERS or e.callee in INSERT_HELPERS) and is_state_receiver(b, e)]
        if not ins:
            res.holds(rid, b.id, "no insertion-capable call", where=f"{b.file}:{b.line}", nontrivial=False)
            continue
        edges = tracked_edges(b, key_args)
        for i, e in enumerate(ins):
            k = f"{b.id}:{e.callee.rsplit('::', 1)[-1]}#{i}"
            # re-homing what this body itself just removed (segment demotion) is not "starting to track"
            if any(related(b, e.args[1], r) and r.callee == LRULIST + "pop_back" for r, _ in removal_sites(P, b, {}) if len(e.args) > 1):
                res.holds(rid, k, "re-tracks a key this body popped from another segment", where=e.loc)
                continue
            if edges and b.edges_dominate(edges, e.pos):
                res.holds(rid, k, "behind a tracked-test of the accessed key", where=e.loc)
            else:
                res.violated(rid, k, f"{e.callee.rsplit('::', 1)[-1]} at {e.loc} can insert the accessed key although it is not tracked (late access after removal/eviction): "
                             "the policy then nominates a key that is not resident, or nominates a victim twice", where=e.loc)
    for hid, why in ACCESS_HELPERS.items():
        if hid not in P.bodies:
            res.unclassified(rid, f"{hid}:helper", f"access helper missing ({why})", where="rules/c14.py")


def clause5(P, res):
    rid = "C14-5"
    res.rule(rid, "paired bookkeeping structures are updated together: a body that removes from (inserts into) one of the pair also removes from "
                  "(inserts into) the other, or re-inserts into the same one (re-positioning)")
    def fam(b):
        return [b] + [c for c in P.bodies.values() if c.parent == b.id or (c.root == b.id and c.id != b.id)]
    for pol, (fa, fb, why) in PAIRS.items():
        bs = [b for b in bodies(P) if policy_of(b) == pol and b.kind == "method"]
        seen = 0
        for b in bs:
            ops = {"rm": {fa: [], fb: []}, "ins": {fa: [], fb: []}, "clr": {fa: [], fb: []}}
            for x in fam(b):
                for e in x.calls():
                    if not e.args:
                        continue
                    path = recv_path(x, e)
                    f = fa if path.endswith("." + fa) else fb if path.endswith("." + fb) else None
                    if f is None:
                        continue
                    if e.callee in REMOVERS:
                        ops["rm"][f].append(e)
                    elif e.callee in INSERTERS:
                        ops["ins"][f].append(e)
                    elif e.callee in CLEARERS:
                        ops["clr"][f].append(e)
            for kind, label in (("rm", "removes from"), ("ins", "inserts into"), ("clr", "clears")):
                for x, y in ((fa, fb), (fb, fa)):
                    if ops[kind][x]:
                        seen += 1
                        k = f"{b.id}:{kind}:{x}"
                        ok = bool(ops[kind][y]) or (kind == "rm" and bool(ops["ins"][x]))
                        if ok:
                            res.holds(rid, k, f"{label} `{x}` and `{y}` together", where=ops[kind][x][0].loc)
                        else:
                            res.violated(rid, k, f"{b.name} {label} `{x}` but not `{y}` ({why}): the two views of the tracked set diverge "
                                         "(a key is nominated twice, or a later unwrap on the missing record panics)", where=ops[kind][x][0].loc)
        if seen == 0:
            res.unclassified(rid, f"{pol}:pair", f"no operation on the pair {fa}/{fb} found; the PAIRS table needs review", where="rules/c14.py")


def clause6(P, res):
    rid = "C14-6"
    res.rule(rid, "LruList: every body that inserts a node into / removes a node from the arena also updates the lookup map and writes the running "
                  "total `current_cost` with an amount derived from that node's (or the given) cost; clear resets all of them")
    found = 0
    for b in P.bodies.values():
        if not LIST_INTERNALS.match(b.id) or b.kind != "method":
            continue
        arena = [e for e in b.calls() if e.callee.startswith(ARENA) and e.method in ("insert", "remove", "clear") and recv_path(b, e).endswith(".nodes")]
        if not arena:
            continue
        for a in arena:
            found += 1
            k = f"{b.id}:nodes.{a.method}"
            want = {"insert": "insert", "remove": "remove", "clear": "clear"}[a.method]
            lk = [e for e in b.calls() if e.callee.startswith(HASHMAP) and e.method == want and recv_path(b, e).endswith(".lookup")]
            cw = [e for e in b.events if e.kind == "assign" and b.path_of_place(e.data["p"]).endswith(".current_cost")]
            problems = []
            if not lk:
                problems.append(f"no lookup.{want}")
            if not cw:
                problems.append("current_cost is not written")
            elif a.method != "clear":
                good = False
                for w in cw:
                    rv = w.data["r"]
                    ops = [rv[x] for x in ("o", "a", "b") if isinstance(rv.get(x), dict)] + list(rv.get("ops", []) or [])
                    for o in ops:
                        evs, args, _ = SRC(b, o)
                        u64_args = {i for i in args if b.locals[i].get("ty") == "u64"}
                        if a in evs or u64_args or ".cost" in b.path_of_operand(o):
                            good = True
                if not good:
                    problems.append("the amount written to current_cost is not derived from the node's cost")
            if problems:
                res.violated(rid, k, f"{b.name}: " + "; ".join(problems) + " — the list's total (used for segment sizing and reported by evict) drifts from its contents", where=a.loc)
            else:
                res.holds(rid, k, "arena, lookup and running total move together", where=a.loc)
    if found < 3:
        res.unclassified(rid, "LruList:arena-sites", f"expected >= 3 arena insert/remove/clear sites in LruList, found {found}", where="rules/c14.py")


def clause7(P, res):
    rid = "C14-7"
    res.rule(rid, "definition shape: LRU's on_access moves the key to the front and its evict takes from the back only; FIFO's on_access touches no "
                  "tracking structure and its on_admit reorders nothing for a tracked key (push_front only behind a not-tracked edge)")
    def tb(pol, name):
        for b in bodies(P):
            if policy_of(b) == pol and trait_method(b, name):
                return b
        return None
    lru_acc, lru_ev = tb("lru", "on_access"), tb("lru", "evict")
    fifo_acc, fifo_adm, fifo_ev = tb("fifo", "on_access"), tb("fifo", "on_admit"), tb("fifo", "evict")
    for nm, b in (("lru::on_access", lru_acc), ("lru::evict", lru_ev), ("fifo::on_access", fifo_acc), ("fifo::on_admit", fifo_adm), ("fifo::evict", fifo_ev)):
        if b is None:
            res.unclassified(rid, nm, "body not found", where="rules/c14.py")
    if lru_acc:
        mv = [e for e in lru_acc.calls() if e.callee in (LRULIST + "move_to_front", LRULIST + "push_front")]
        if mv and cl.all_paths_pass(lru_acc, [(0, 0)], [e.pos for e in mv]):
            res.holds(rid, lru_acc.id, "every access moves the key to the front", where=mv[0].loc)
        else:
            res.violated(rid, lru_acc.id, "an access does not move the key to the most-recently-used end: eviction order is no longer least-recently-used", where=f"{lru_acc.file}:{lru_acc.line}")
    for b in (lru_ev, fifo_ev):
        if b:
            takes = [e for e in b.calls() if e.callee in REMOVERS and is_state_receiver(b, e)]
            bad = [e for e in takes if e.callee != LRULIST + "pop_back"]
            if takes and not bad:
                res.holds(rid, b.id, "victims are taken with pop_back only (the oldest end)", where=takes[0].loc)
            else:
                res.violated(rid, b.id, "evict takes victims from somewhere other than the back of the list: not the least-recently-used / first-in order", where=f"{b.file}:{b.line}")
    if fifo_acc:
        touched = [e for e in fifo_acc.calls() if is_state_receiver(fifo_acc, e)]
        if touched:
            res.violated(rid, fifo_acc.id, f"FIFO on_access touches policy state at {touched[0].loc}: insertion order is no longer the eviction order", where=touched[0].loc)
        else:
            res.holds(rid, fifo_acc.id, "access is a no-op", where=f"{fifo_acc.file}:{fifo_acc.line}", nontrivial=False)
    if fifo_adm:
        key_args = key_params(fifo_adm)
        movers = [e for e in fifo_adm.calls() if e.callee in (LRULIST + "push_front", LRULIST + "move_to_front")]
        not_tracked = []
        for e in fifo_adm.calls():
            if e.callee in (LRULIST + "contains", LRULIST + "update_cost") and len(e.args) > 1:
                for blk in range(len(fifo_adm.blocks)):
                    if not fifo_adm.is_cleanup(blk) and fifo_adm.term(blk)["k"] == "switch":
                        ss = fifo_adm.switch_source(blk)
                        if ss and ss.get("kind") == "call" and ss["event"] is e:
                            not_tracked.extend(fifo_adm.edges_by_label(blk).get("true" if ss.get("neg") else "false", []))
        bad = [m for m in movers if not (not_tracked and fifo_adm.edges_dominate(not_tracked, m.pos))]
        if movers and not bad:
            res.holds(rid, fifo_adm.id, "push_front only for a key that is not tracked yet", where=movers[0].loc)
        else:
            res.violated(rid, fifo_adm.id, "FIFO on_admit can move an already tracked key to the front: re-inserting a key renews its place in the queue", where=f"{fifo_adm.file}:{fifo_adm.line}")


def run(P, ctx):
    res = Result("C14")
    helpers = remover_helpers(P)
    n1 = clause1(P, res, helpers)
    n2 = clause2(P, res, helpers)
    clause3(P, res)
    clause3b(P, res)
    clause4(P, res)
    clause5(P, res)
    clause6(P, res)
    clause7(P, res)
    pols = sorted({policy_of(b) for b in bodies(P) if b.impl_trait == "fibre_cache::policy::CachePolicy"})
    res.notes.append(f"policies analysed: {', '.join(pols)}; victim-returning helpers: {', '.join(sorted(helpers)) or '-'}")
    want = {"arc", "clock", "fifo", "lru", "sieve", "slru", "tinylfu"}
    if not want <= set(pols):
        res.unclassified("C14-1", "policies", f"expected the built-in policies {sorted(want)}, found {pols}", where="rules/c14.py")
    res.extra["explanation"] = ("Policy-contract shapes on the MIR of fibre_cache::policy: victims and reported costs come from records the policy just "
                                "removed; a resident key leaves the tracking structures only to be nominated, re-tracked or because the policy was told; on_admit "
                                "records the given cost on every path; on_access never starts tracking; paired structures and the LruList total move together; "
                                "LRU/FIFO definition shapes.")
    res.extra["assumptions"] = ["the base operations of the tracking structures (LruList, HashMap, VecDeque, Vec, generational_arena) behave as documented",
                                "ARC's b1/b2 are ghost lists (non-resident history): leaving them is not 'stops tracking a resident'"]
    res.notes.append("RandomPolicy is cfg(feature = \"random\"), a default feature: it is part of the quick configuration.")
    res.notes.append("Not decided: which victim a policy picks beyond the LRU/FIFO shapes (segment sizing, ARC's p, sketch estimates, clock hand), "
                     "'frees at least the requested cost' as a number (e.g. ARC's replace() gives up when T1 is below p and T2 is empty; TinyLFU never "
                     "evicts from its window), zero-cost keys.")
    return res
