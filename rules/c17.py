"""C17 — iteration and snapshots. DESIGN.md §4 C17."""
import re

import mir
from report import Result
from rules import c12, c13, cachelib as cl


def run(P, ctx):
    res = Result("C17")
    res.extra["explanation"] = ("Expiry gate on everything iterators and snapshots yield, and restore-is-an-insertion (cost accounted, policy informed, same shard index "
                                "function). Cursor arithmetic, exactly-once enumeration and TTL round-trips are NOT decided.")
    res.rule("C17-1", "every value yielded by Iter, IterStream, SnapshotIter, AsyncSnapshotIter and both to_snapshot()s is behind the expiry gate: direct value reads "
                      "in iter.rs / snapshot.rs are instances of C12-1; the snapshot iterators read through fetch(), whose gate is a C12-1 instance")
    c12.value_read_instances(P, res, "C17-1", scope=("iter::", "snapshot::", "::fetch"))
    for bid in ("fibre_cache::<iter::SnapshotIter<'a, K, V, H> as core::iter::traits::iterator::Iterator>::next", "fibre_cache::iter::AsyncSnapshotIter::<'a, K, V, H>::next"):
        b0 = P.body(bid)
        if b0 is None:
            res.unclassified("C17-1", bid, "snapshot iterator next() not found")
            continue
        b = P.async_inner(b0) or b0
        reads = [e for e in b.calls() if cl.is_value_call(e) or (cl.is_map_call(e) and e.method in cl.MAP_LOOKUPS)]
        viaf = [e for e in b.calls() if e.method == "fetch"]
        if reads:
            res.violated("C17-1", bid, f"snapshot iterator reads the shard map directly at {reads[0].loc} instead of going through the gated fetch()", where=reads[0].loc)
        elif viaf:
            res.holds("C17-1", bid, "values come from fetch() (expiry-gated)", where=viaf[0].loc)
        else:
            res.unclassified("C17-1", bid, "no value source recognised")
    rid = "C17-2"
    res.rule(rid, "restore is an insertion like any other: the snapshot-restore path accounts the restored cost in current_cost, announces every restored entry to "
                  "its shard's eviction policy, and places entries with the same shard-index function that lookups use")
    b = P.body("fibre_cache::builder::CacheBuilder::<K, V, H>::build_shared_core")
    if b is None:
        res.unclassified(rid, "build_shared_core", "restore path not found")
        return res
    fam = [b] + P.children(b.id)
    ins = [(x, e) for x in fam for e in cl.map_events(x, {"insert"})]
    if not ins:
        res.unclassified(rid, "restore-insert", "no shard-map insert in the restore path")
        return res
    x, i = ins[0]
    stores = cl.cost_ops(b, {"store", "fetch_add"})
    if stores and any(mir.op_const(s.args[1]) is None for s in stores if len(s.args) > 1):
        res.holds(rid, "restore:cost", f"restored cost stored into current_cost at {stores[0].loc}", where=stores[0].loc)
    else:
        res.violated(rid, "restore:cost", "restored entries are not accounted in current_cost: the capacity gate never sees them", where=i.loc)
    sends = [e for y in fam for e in y.calls() if cl.is_write_event_send(e) or e.method == "on_admit"]
    if sends:
        res.holds(rid, "restore:policy", f"restored entries announced to the policy at {sends[0].loc}", where=sends[0].loc)
    else:
        res.violated(rid, "restore:policy", "restored entries are never announced to the eviction policy (no AccessEvent::Write, no on_admit): the policy does not track them, "
                     "so a restored cache cannot evict them and does not honour its capacity", where=i.loc)
    # shard index function: restore must use the store's own index helper (get_shard_index / get_shard / hash & (n-1))
    idx = [e for y in fam for e in y.calls() if re.search(r"get_shard(_index)?(_from_hash)?$|hash_key$", e.method or "")]
    lookups = P.body("fibre_cache::store::ShardedStore::<K, V, H>::get_shard_index")
    if idx:
        res.holds(rid, "restore:shard-index", f"uses {idx[0].method}() like the lookup path", where=idx[0].loc)
    else:
        res.unclassified(rid, "restore:shard-index", "restore computes the shard index by an expression the rule does not recognise; compare with ShardedStore::get_shard_index by hand",
                         where=i.loc)
    return res
