"""C17 — iteration and snapshots. DESIGN.md §4 C17."""
import re

import mir
from report import Result
from rules import c12, c13, cachelib as cl


def refill_bodies(P):
    """bodies that fill an iteration batch: they push (key, value) pairs onto a VecDeque and advance a cursor's shard_index"""
    out = []
    for b in P.bodies.values():
        if not (b.id.startswith("fibre_cache::iter::") or b.id.startswith("fibre_cache::<iter::")):
            continue
        pushes = [e for e in b.calls() if e.method == "push_back"]
        advances = [e for e in b.events if e.kind == "assign" and e.data["p"][1] and b.path_of_place(e.data["p"]).endswith("shard_index")]
        if pushes and advances:
            out.append((b, pushes))
    return out


def clause3(P, res):
    rid = "C17-3"
    res.rule(rid, "a refill ends only when the batch is full or the shards are exhausted: Iter::next / IterStream::poll_next treat an empty buffer after a refill as "
                  "the end of the iteration, so every return of a refill body must be dominated by (a) the finished flag read true, (b) the edge of a comparison on "
                  "which the cursor's shard_index has reached the shard count, or (c) the edge on which the batch buffer's len() has reached batch_size — any other "
                  "way out (a scan budget, a time limit) truncates the iteration in front of live entries")
    bodies = refill_bodies(P)
    for b, pushes in bodies:
        key = b.id
        bufpaths = {b.path_of_operand(e.args[0]) for e in pushes}
        done = []
        for blk in range(len(b.blocks)):
            if b.is_cleanup(blk):
                continue
            s = b.switch_source(blk)
            if not s:
                continue
            if s["kind"] == "place" and s["path"].endswith("finished"):
                done.extend(b.edges_by_label(blk).get("false" if s.get("neg") else "true", []))
            elif s["kind"] == "cmp" and s["op"] in ("Lt", "Ge", "Gt", "Le"):
                pa, pb = b.path_of_operand(s["a"]), b.path_of_operand(s["b"])
                da, db = b.producer_call(s["a"]), b.producer_call(s["b"])
                a_idx, b_idx = pa.endswith("shard_index"), pb.endswith("shard_index")
                a_len = da is not None and da.method == "len" and b.path_of_operand(da.args[0]) in bufpaths and pb.endswith("batch_size")
                b_len = db is not None and db.method == "len" and b.path_of_operand(db.args[0]) in bufpaths and pa.endswith("batch_size")
                if not (a_idx or b_idx or a_len or b_len):
                    continue
                op = s["op"] if (a_idx or a_len) else {"Lt": "Gt", "Gt": "Lt", "Le": "Ge", "Ge": "Le"}[s["op"]]     # normalised: progress <op> limit
                if op == "Lt":
                    lab = "false"
                elif op == "Ge":
                    lab = "true"
                else:
                    continue     # `<=` / `>` against the limit is not the "reached" edge
                if s.get("neg"):
                    lab = "true" if lab == "false" else "false"
                done.extend(b.edges_by_label(blk).get(lab, []))
        exits = set(b.exits())
        reach = b.pos_reach_set((0, 0), removed_edges=frozenset(done), strict=False)
        if not done:
            res.violated(rid, key, "refill body has no recognisable termination test (shard_index vs shard count, buffer len vs batch_size, finished)", where=f"{b.file}:{b.line}")
        elif reach & exits:
            res.violated(rid, key, f"a path through {b.id} returns although neither the batch is full nor the shards are exhausted nor `finished` was set: the caller reads the "
                         "empty batch as end of iteration and the remaining live entries are never yielded", where=f"{b.file}:{b.line}",
                         witness=[f"done edge {e}" for e in done])
        else:
            res.holds(rid, key, f"every return is behind one of {len(done)} batch-full / shards-exhausted / finished edges", where=f"{b.file}:{b.line}")
    if len(bodies) < 2:
        res.violated(rid, "refill-bodies", f"expected the sync and the async refill body, found {len(bodies)}")


def clause4(P, res):
    rid = "C17-4"
    res.rule(rid, "a batch is accepted together with its cursor, and no shard is skipped: (a) in IterStream::poll_next every path that appends a refill result to the "
                  "buffer also stores the cursor that result came with (otherwise the same batch is produced again); (b) iterators and snapshots take shard locks with "
                  "the blocking read()/read_async()/write — never try_read/try_write, whose failure would silently pass over a shard's entries")
    b = P.body("fibre_cache::<iter::IterStream<K, V, H> as futures_core::stream::Stream>::poll_next")
    if b is None:
        res.unclassified(rid, "poll_next", "IterStream::poll_next not found")
    else:
        def appends(bb):
            return [e for e in bb.calls() if e.method in ("extend", "append", "push_back") and e.args and bb.path_of_operand(e.args[0]).endswith(".buffer")]
        ext = appends(b)
        for e in b.calls():      # a helper of the same module that does the appending (refactors fold the two arms into one function)
            t = P.body(e.callee_resolved)
            if t is not None and re.search(r"^fibre_cache::<?iter::", t.id) and appends(t):
                ext.append(e)
        cur = [e for e in b.events if e.kind == "assign" and e.data["p"][1] and b.path_of_place(e.data["p"]).endswith(".cursor")]
        if not ext or not cur:
            res.unclassified(rid, "poll_next", f"expected buffer.extend and cursor stores, found {len(ext)}/{len(cur)}", where=f"{b.file}:{b.line}")
        else:
            bad = [e for e in ext if not b.dominated_by_any(e.pos, {x.pos for x in cur})]
            if bad:
                res.violated(rid, "poll_next", f"the refill result is appended to the buffer at {bad[0].loc} on a path that never stored its cursor: the next refill restarts from the "
                             "old cursor and yields the same entries again", where=bad[0].loc)
            else:
                res.holds(rid, "poll_next", f"{len(ext)} batch acceptances, each after a cursor store", where=ext[0].loc, obligations=len(ext))
    n = 0
    for bb in P.bodies.values():
        if not re.search(r"^fibre_cache::<?(iter|snapshot)::", bb.id):
            continue
        for e in bb.calls():
            if "HybridRwLock" in e.callee and e.method in ("read", "write", "read_async", "write_async", "try_read", "try_write"):
                n += 1
                if e.method.startswith("try_"):
                    res.violated(rid, f"{bb.id}:{e.method}", f"{e.method} at {e.loc} in iteration/snapshot code: when the shard is momentarily write-locked its entries are skipped "
                                 "(never enumerated, never exported)", where=e.loc)
    if n < 4:
        res.violated(rid, "shard-lock-sites", f"expected >= 4 shard lock acquisitions in iter.rs / snapshot.rs, found {n}")
    else:
        res.holds(rid, "shard-lock-sites", f"{n} shard lock acquisitions in iteration/snapshot code, all blocking", where="cache/src/iter.rs", obligations=n)


def clause5(P, res):
    rid = "C17-5"
    res.rule(rid, "a persisted deadline cannot be lost: in every body that turns an entry's expires_at into a remaining lifetime (checked_sub against a clock sample), "
                  "that clock sample is taken before (dominates) the is_expired test that admits the entry — a sample taken after the scan lets an entry pass the "
                  "liveness test, then find its deadline behind the reference clock: checked_sub yields None, which the restore reads as 'no TTL' (immortal)")
    n = 0
    for b in cl.cache_bodies(P):
        for cs in [e for e in b.calls() if e.method == "checked_sub" and "Duration" in e.callee and len(e.args) > 1]:
            if not c12.derives_from_deadline(b, cs.args[0]):
                evs, _, _ = mir.operand_sources(b, cs.args[0])
                if not any(x.kind == "call" and x.method == "from_nanos" and any(c12.derives_from_deadline(b, a) for a in x.args) for x in evs):
                    continue
            n += 1
            key = f"{b.id}:ttl_remaining"
            clocks = [x for x in mir.operand_sources(b, cs.args[1])[0] if x.kind == "call" and re.search(r"now_duration$|Instant::now$", x.callee_resolved or x.callee or "")]
            tests = [x for x in b.calls() if cl.is_expired_call(x)]
            if not clocks:
                res.violated(rid, key, f"the remaining lifetime at {cs.loc} is computed against a value that is not a clock sample taken in this function: it cannot be shown to "
                             "precede the liveness test of the entry", where=cs.loc)
            elif not tests:
                res.violated(rid, key, f"the remaining lifetime at {cs.loc} is computed in a function that does not itself test is_expired: the clock sample at {clocks[0].loc} is "
                             "not ordered before the liveness test that admitted the entry (an entry expiring in between is persisted without a deadline)", where=cs.loc)
            elif all(b.dominated_by_any(t.pos, {c.pos for c in clocks}) for t in tests):
                res.holds(rid, key, f"clock sampled at {clocks[0].loc}, before every liveness test", where=cs.loc, witness=[f"is_expired {t.loc}" for t in tests])
            else:
                res.violated(rid, key, f"the reference clock ({clocks[0].loc}) is sampled after a liveness test ({tests[0].loc}): an entry that expires in between is persisted with "
                             "ttl_remaining = None and restored without a deadline", where=cs.loc)
    if n < 2:
        res.unclassified(rid, "ttl_remaining-sites", f"expected the two to_snapshot bodies to compute remaining lifetimes, found {n}", where="rules/c17.py")


def run(P, ctx):
    res = Result("C17")
    res.extra["explanation"] = ("Expiry gate on everything iterators and snapshots yield, and restore-is-an-insertion (cost accounted, policy informed, same shard index "
                                "function). Cursor arithmetic, exactly-once enumeration and TTL round-trips are NOT decided.")
    res.rule("C17-1", "every value yielded by Iter, IterStream, SnapshotIter, AsyncSnapshotIter and both to_snapshot()s is behind the expiry gate: direct value reads "
                      "in iter.rs / snapshot.rs are instances of C12-1; the snapshot iterators read through fetch(), whose gate is a C12-1 instance")
    c12.value_read_instances(P, res, "C17-1", scope=("iter::", "snapshot::", "::fetch"))
    for bid in ("fibre_cache::<iter::SnapshotIter<'a, K, V, H> as core::iter::traits::iterator::Iterator>::next", "fibre_cache::iter::AsyncSnapshotIter::<'a, K, V, H>::next"):
        b0 = P.body(bid)
        if b0 is None:
            res.unclassified("C17-1", bid, "snapshot iterator next() not found")
            continue
        b = P.async_inner(b0) or b0
        reads = [e for e in b.calls() if cl.is_value_call(e) or (cl.is_map_call(e) and e.method in cl.MAP_LOOKUPS)]
        viaf = [e for e in b.calls() if e.method == "fetch"]
        if reads:
            res.violated("C17-1", bid, f"snapshot iterator reads the shard map directly at {reads[0].loc} instead of going through the gated fetch()", where=reads[0].loc)
        elif viaf:
            res.holds("C17-1", bid, "values come from fetch() (expiry-gated)", where=viaf[0].loc)
        else:
            res.unclassified("C17-1", bid, "no value source recognised")
    clause3(P, res)
    clause4(P, res)
    clause5(P, res)
    rid = "C17-2"
    res.rule(rid, "restore is an insertion like any other: the snapshot-restore path accounts the restored cost in current_cost, announces every restored entry to "
                  "its shard's eviction policy, and places entries with the same shard-index function that lookups use")
    b = P.body("fibre_cache::builder::CacheBuilder::<K, V, H>::build_shared_core")
    if b is None:
        res.unclassified(rid, "build_shared_core", "restore path not found")
        return res
    fam = [b] + P.children(b.id)
    ins = [(x, e) for x in fam for e in cl.map_events(x, {"insert"})]
    if not ins:
        res.unclassified(rid, "restore-insert", "no shard-map insert in the restore path")
        return res
    x, i = ins[0]
    stores = cl.cost_ops(b, {"store", "fetch_add"})
    if stores and any(mir.op_const(s.args[1]) is None for s in stores if len(s.args) > 1):
        res.holds(rid, "restore:cost", f"restored cost stored into current_cost at {stores[0].loc}", where=stores[0].loc)
    else:
        res.violated(rid, "restore:cost", "restored entries are not accounted in current_cost: the capacity gate never sees them", where=i.loc)
    sends = [e for y in fam for e in y.calls() if cl.is_write_event_send(e) or e.method == "on_admit"]
    if sends:
        res.holds(rid, "restore:policy", f"restored entries announced to the policy at {sends[0].loc}", where=sends[0].loc)
    else:
        res.violated(rid, "restore:policy", "restored entries are never announced to the eviction policy (no AccessEvent::Write, no on_admit): the policy does not track them, "
                     "so a restored cache cannot evict them and does not honour its capacity", where=i.loc)
    # shard index function: restore must use the store's own index helper (get_shard_index / get_shard / hash & (n-1))
    idx = [e for y in fam for e in y.calls() if re.search(r"get_shard(_index)?(_from_hash)?$|hash_key$", e.method or "")]
    lookups = P.body("fibre_cache::store::ShardedStore::<K, V, H>::get_shard_index")
    if idx:
        res.holds(rid, "restore:shard-index", f"uses {idx[0].method}() like the lookup path", where=idx[0].loc)
    else:
        res.unclassified(rid, "restore:shard-index", "restore computes the shard index by an expression the rule does not recognise; compare with ShardedStore::get_shard_index by hand",
                         where=i.loc)
    return res
