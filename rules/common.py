"""Shared structural selectors for the channel rules (handles, futures, closed gates)."""
import re
from collections import namedtuple

import mir

EXCLUDED_MODULES = ("fibre::mpmc_exp", "fibre::loom_tests", "fibre::telemetry")


def in_scope(path):
    return not any(path.startswith(m + "::") or ("<" + m[7:]) in path or m + "::" in path for m in EXCLUDED_MODULES)


class Handle:
    def __init__(self, P, adt):
        self.path = adt["path"]
        self.adt = adt
        fields = P.adt_fields(self.path)
        self.fields = {f["name"]: f for f in fields}
        self.closed_ty = self.fields["closed"]["ty"]
        self.closed_atomic = "Atomic" in self.closed_ty
        # fields through which shared channel state is reached: everything with drop glue
        # (Arc<Shared>, mailbox consumer, subscription set, ...) except `closed` itself.
        self.shared_fields = [f["name"] for f in fields if f["name"] != "closed" and f.get("needs_drop")]
        self.is_clone = P.has_impl(self.path, "core::clone::Clone")
        self.has_drop = P.has_impl(self.path, "core::ops::drop::Drop")
        n = self.path.rsplit("::", 1)[-1]
        self.side = "sender" if "Sender" in n else ("receiver" if "Receiver" in n else "?")
        self.is_async = "Async" in n
        self.short = self.path[len("fibre::"):]

    def __repr__(self):
        return f"<Handle {self.short}>"


def handles(P):
    out = {}
    for a in P.adts.values():
        p = a["path"]
        if not p.startswith("fibre::") or not in_scope(p):
            continue
        if any(f["name"] == "closed" for f in P.adt_fields(p)):
            out[p] = Handle(P, a)
    return out


def future_types(P, hs):
    """ADTs of `fibre` implementing Future or Stream (other than the handles themselves) that hold a
    handle through a field: {adt path: [(field name, handle path)]}; plus all Future/Stream ADTs."""
    out = {}
    for i in P.impls:
        tr = i.get("trait", "")
        if tr not in ("core::future::future::Future", "futures_core::stream::Stream"):
            continue
        adt = i.get("self_adt_direct")
        if not adt or not adt.startswith("fibre::") or not in_scope(adt):
            continue
        links = []
        for f in P.adt_fields(adt):
            if f.get("adt") in hs and adt not in hs:
                links.append((f["name"], f["adt"]))
        out.setdefault(adt, {"links": links, "traits": set(), "impl": i})
        out[adt]["traits"].add(tr.rsplit("::", 1)[-1])
    return out


def poll_body(P, adt):
    for b in P.bodies.values():
        if b.self_adt == adt and b.impl_trait in ("core::future::future::Future", "futures_core::stream::Stream") and b.name in ("poll", "poll_next"):
            return b
    return None


def drop_body(P, adt):
    for b in P.bodies.values():
        if b.self_adt == adt and b.impl_trait == "core::ops::drop::Drop" and b.name == "drop" and b.kind == "method":
            if b.raw.get("impl_self_ty") and P.impls_of(adt, "core::ops::drop::Drop"):
                # make sure the Drop impl is for adt itself
                return b
    return None


def trait_method_body(P, adt, trait, name):
    for b in P.bodies.values():
        if b.self_adt == adt and b.impl_trait == trait and b.name == name and b.kind == "method":
            return b
    return None


def effective_body(P, b):
    """async fn stubs -> their coroutine."""
    if b is not None and b.raw.get("is_async"):
        inner = P.async_inner(b)
        if inner is not None:
            return inner
    return b


# ---------------------------------------------------------------------------
# closed gate
# ---------------------------------------------------------------------------

def _is_closed_path(path, hpath):
    return path == hpath + ".closed"


def closed_reads(body, hpath):
    """Events that read `<hpath>.closed` (atomic load or is_closed())."""
    out = []
    for e in body.calls():
        if not e.args:
            continue
        p0 = body.path_of_operand(e.args[0])
        if e.method == "load" and _is_closed_path(p0, hpath):
            out.append(e)
        elif e.method == "is_closed" and p0 == hpath:
            out.append(e)
    return out


def not_closed_edges(body, hpath):
    """CFG edges taken when `<hpath>.closed` was read as false."""
    edges = []
    gates = []
    for blk in range(len(body.blocks)):
        if body.is_cleanup(blk):
            continue
        s = body.switch_source(blk)
        if not s:
            continue
        hit = False
        if s["kind"] == "call":
            e = s["event"]
            if e.args:
                p0 = body.path_of_operand(e.args[0])
                if (e.method == "load" and _is_closed_path(p0, hpath)) or (e.method == "is_closed" and p0 == hpath):
                    hit = True
        elif s["kind"] == "place" and _is_closed_path(s["path"], hpath):
            hit = True
        if hit:
            lab = "true" if s.get("neg") else "false"
            es = body.edges_by_label(blk).get(lab, [])
            edges.extend(es)
            gates.append((blk, lab))
    return edges, gates


# Calls that only withdraw the caller's own waiter registration: they move no value and may
# legitimately run before the flag is consulted (e.g. a batch future that finds its batch complete).
CLEANUP_METHODS = re.compile(r"^(unregister(_\w+)?|remove_waiter|cancel_wait)$")


GateStatus = namedtuple("GateStatus", "ok bad needs gates delegated consults")


def gate_status(P, hs, body, hpath, memo=None, depth=0, own=frozenset()):
    """Is every use of the channel state reachable through handle path `hpath` in `body`
    control-dependent on having read `<hpath>.closed` as false?
    Interprocedural: passing the whole handle to a program function / closure / future whose own
    body is gated counts as gated."""
    if memo is None:
        memo = {}
    key = (body.id, hpath)
    if key in memo:
        return memo[key] or GateStatus(True, [], 0, [], [], False)
    memo[key] = None  # cycle guard: optimistic
    handle_adt = None
    # shared fields: union over handle types reachable under this path — find by type of the path root
    edges, gates = not_closed_edges(body, hpath)
    needs = []       # (event, why)
    delegated = []   # (event, target body id, ok)
    gate_calls = []  # calls to delegates that themselves consult the flag on every path to their effects
    for e in body.events:
        if e.kind == "call":
            if e.callee in mir.TRANSPARENT_METHODS:
                continue
            paths = [body.path_of_operand(a) for a in e.args]
            whole = [i for i, p in enumerate(paths) if p == hpath]
            deeper = [p for p in paths if p.startswith(hpath + ".") and not p.startswith(hpath + ".closed")]
            if whole:
                tgt = P.body(e.callee_resolved)
                if tgt is not None and tgt.id in own:
                    delegated.append((e, tgt.id, True))  # decided as its own instance
                    sub = gate_status(P, hs, effective_body(P, tgt), tgt.local_name(whole[0] + 1), memo, depth + 1, own) if depth < 8 else None
                    if sub is not None and sub.ok and sub.consults:
                        gate_calls.append(e)
                elif tgt is not None and depth < 8:
                    tb = effective_body(P, tgt)
                    pname = tgt.local_name(whole[0] + 1)
                    sub = gate_status(P, hs, tb, pname, memo, depth + 1, own)
                    delegated.append((e, tb.id, sub.ok))
                    if sub.ok and sub.consults:
                        gate_calls.append(e)
                    if not sub.ok:
                        needs.append((e, f"passes the handle to ungated {tgt.id}"))
                # foreign callee receiving the whole handle (Clone, Debug, mem::forget): no channel effect
            if deeper:
                if CLEANUP_METHODS.match(e.method or "") and e.callee.startswith("fibre::"):
                    continue
                if e.method in ("load",) and all(re.search(r"\.closed$", p) for p in deeper):
                    continue
                needs.append((e, f"uses {deeper[0]}"))
        elif e.kind == "assign":
            r = e.data["r"]
            if r["k"] in ("agg", "closure"):
                for fi, op in enumerate(r["ops"]):
                    pth = body.path_of_operand(op)
                    if pth != hpath:
                        continue
                    fields = r.get("fields") or []
                    fname = fields[fi] if fi < len(fields) else str(fi)
                    if r["k"] == "closure":
                        tb = P.body(r["def"])
                        if tb is not None and depth < 8:
                            sub = gate_status(P, hs, tb, fname, memo, depth + 1, own)
                            delegated.append((e, tb.id, sub.ok))
                            if not sub.ok:
                                needs.append((e, f"captures the handle in ungated {tb.id}"))
                    else:
                        pb = poll_body(P, r["adt"])
                        if pb is not None and pb.id in own:
                            delegated.append((e, pb.id, True))  # decided as its own instance
                        elif pb is not None and depth < 8:
                            sub = gate_status(P, hs, pb, "self." + fname, memo, depth + 1, own)
                            delegated.append((e, pb.id, sub.ok))
                            if not sub.ok:
                                needs.append((e, f"hands the handle to {r['adt']} whose poll is ungated"))
    bad = []
    if needs:
        # "consulted": every path from entry to the use passes through a branch on the flag.
        # (Cleanup on the closed branch — unregistering a waiter before returning Closed — is a
        # legitimate use of shared state after the flag was read as true, so the obligation is
        # domination by the branch, not by its not-closed edge.)
        sw = frozenset((b, len(body.blocks[b]["s"])) for b, _ in gates) | frozenset(g.pos for g in gate_calls)
        reach = body.entry_reach_set(removed=sw) if sw else None
        for e, why in needs:
            if reach is None or e.pos in reach:
                bad.append((e, why))
    consults = bool(gates) or (bool(gate_calls) and not needs)
    st = GateStatus(not bad, bad, len(needs), gates, delegated, consults)
    memo[key] = st
    return st
