"""C09 — every value is dropped exactly once. DESIGN.md §4 C09."""
import re
from collections import Counter

import mir
from report import Result
from rules import common


def clause2(P, res):
    rid = "C09-2"
    res.rule(rid, "conversions that mem::forget(self) move every owning field exactly once: in each such body the fields of Self that have drop glue "
                  "are each read out with ptr::read exactly once before the forget (none leaked, none duplicated), and no other field is ptr::read twice")
    n = 0
    for b in P.bodies.values():
        if not b.id.startswith("fibre::") or not common.in_scope(b.id) or "::tests::" in b.id:
            continue
        forgets = [e for e in b.calls() if e.callee == "core::mem::forget" and e.args and b.path_of_operand(e.args[0]) in ("self", "this")]
        if not forgets or not b.self_adt:
            continue
        n += 1
        recv = b.path_of_operand(forgets[0].args[0])
        fields = P.adt_fields(b.self_adt)
        need = {f["name"] for f in fields if f.get("needs_drop")}
        reads = Counter()
        for e in b.calls():
            if e.callee in ("core::ptr::read", "core::ptr::const_ptr::<impl *const T>::read") and e.args:
                p = b.path_of_operand(e.args[0])
                m = re.fullmatch(r"(self|this)\.(\w+)", p)
                if m:
                    reads[m.group(2)] += 1
        key = b.id
        where = f"{b.file}:{b.line}"
        leaked = sorted(need - set(reads))
        dup = sorted(f for f, c in reads.items() if c > 1)
        # reads must precede the forget
        late = [e for e in b.calls() if e.callee == "core::ptr::read" and e.args and re.fullmatch(r"(self|this)\.\w+", b.path_of_operand(e.args[0]))
                and not b.dominated_by_any(forgets[0].pos, {e.pos})]
        if leaked:
            res.violated(rid, key, f"mem::forget(self) without moving out {leaked}: these owning fields are leaked (an Arc never released keeps the channel and every buffered value alive)",
                         where=where)
        elif dup:
            res.violated(rid, key, f"field(s) {dup} are ptr::read more than once: two owners of the same resource, double drop", where=where)
        elif late:
            res.violated(rid, key, f"ptr::read at {late[0].loc} is not on every path before mem::forget(self)", where=where)
        else:
            res.holds(rid, key, f"owning fields {sorted(need)} each moved out once", where=where, obligations=max(1, len(need)),
                      witness=[f"ptr::read self.{f} x{c}" for f, c in sorted(reads.items())] + [f"forget {forgets[0].loc}"])
    if n < 40:
        res.violated(rid, "forget-sites", f"expected >= 40 conversions that forget self, found {n}")


PAYLOAD_CELL = re.compile(r"MaybeUninit<|UnsafeCell<core::option::Option<|UnsafeCell<.*MaybeUninit")
DRAIN_CALLS = re.compile(r"assume_init_drop|assume_init_read|assume_init$|::pop$|::take$|drop_in_place|Box::<T>::from_raw|from_raw|::drain|::clear$|dealloc")


def clause1(P, res):
    rid = "C09-1"
    res.rule(rid, "storage owners drain on drop: every fibre type that stores payload in a MaybeUninit cell (which has no drop glue) or reaches payload "
                  "cells through raw pointers implements Drop, and its Drop reaches a drain/free primitive; no other type matches the selector without one")
    owners = []
    for a in P.adts.values():
        p = a["path"]
        if not p.startswith("fibre::") or not common.in_scope(p):
            continue
        gens = [g.split(":", 1)[1] for g in a.get("generics", []) if g.startswith("ty:")]
        if not gens:
            continue
        cells = []
        for f in P.adt_fields(p):
            t = f["ty"]
            if re.search(r"MaybeUninit<", t) and any(re.search(r"\b%s\b" % g, t) for g in gens):
                cells.append((f["name"], "MaybeUninit payload cell"))
            elif re.search(r"\*(mut|const) [\w:]*(Node|Chunk|Slab)<", t):
                cells.append((f["name"], "raw pointer to payload-bearing storage"))
        if cells:
            owners.append((a, cells))
    if len(owners) < 6:
        res.violated(rid, "owner-types", f"expected >= 6 payload-owning types, found {len(owners)}")
    for a, cells in owners:
        p = a["path"]
        key = p
        where = f"{a['file']}:{a['line']}"
        d = common.drop_body(P, p)
        if d is None:
            # nodes/slots that are plain data owned by a container with Drop are fine when the cell type has drop glue (Option<T>)
            if all(k == "raw pointer to payload-bearing storage" for _, k in cells) and re.search(r"::(Node|Cursor|Entry|ChunkEntry|SenderRec|RecvRec|ProducerSlab|ChainHead|ConsumerState|Head)$", p):
                res.holds(rid, key, "link/cursor type: the pointed-to storage is owned and freed by the channel's shared state", where=where, nontrivial=False)
            else:
                res.violated(rid, key, f"{p.rsplit('::', 1)[-1]} stores payload in {[c[0] for c in cells]} ({cells[0][1]}) but has no Drop: values still buffered at teardown are leaked",
                             where=where)
            continue
        ids = {d.id}
        frontier = [d.id]
        for _ in range(4):
            nxt = []
            for i in frontier:
                bb = P.body(i)
                if bb:
                    for c in P.callees_of(bb):
                        if c not in ids:
                            ids.add(c)
                            nxt.append(c)
            frontier = nxt
        if any(DRAIN_CALLS.search(i) for i in ids):
            hit = sorted(i for i in ids if DRAIN_CALLS.search(i))[0]
            res.holds(rid, key, f"Drop reaches {hit.rsplit('::', 2)[-2]}::{hit.rsplit('::', 1)[-1]}", where=where, witness=[f"cells: {cells}"])
        else:
            res.violated(rid, key, "Drop exists but reaches no drain/free primitive: buffered values are leaked at teardown", where=where)
    return owners


def clause6(P, res, owners):
    from rules import disconnect
    rid = "C09-6"
    res.rule(rid, "teardown drains unconditionally: in the Drop of every payload-owning storage type, each path from entry to return passes the drain (the dequeue "
                  "loop / free primitive / a loop that drains every element it visits), unless it leaves on a `needs_drop::<T>()` test or on the cell's own occupancy marker (state / sequence / Option slot) — a drain that is skipped "
                  "when some flag is set leaks whatever a racing send published after that flag was raised")
    n = 0
    for a, cells in owners:
        d = common.drop_body(P, a["path"])
        if d is None:
            continue
        memo = {}

        def reaches_drain(cid, depth=0):
            if cid in memo:
                return memo[cid]
            memo[cid] = False
            if DRAIN_CALLS.search(cid):
                memo[cid] = True
                return True
            bb = P.body(cid)
            if bb is not None and depth < 4:
                memo[cid] = any(reaches_drain(x, depth + 1) for x in P.callees_of(bb))
            return memo[cid]
        PAYLOAD_DROP = re.compile(r"assume_init_drop|assume_init_read|::pop$|::take$|drop_in_place|::drain|::clear$|::pop_node$|::deq_\w+$")

        def reaches_drain(cid, depth=0):      # payload drops only: freeing a node/slab is not a drain
            if cid in memo:
                return memo[cid]
            memo[cid] = False
            if PAYLOAD_DROP.search(cid):
                memo[cid] = True
                return True
            bb = P.body(cid)
            if bb is not None and depth < 4 and cid.startswith("fibre::"):
                memo[cid] = any(reaches_drain(x, depth + 1) for x in P.callees_of(bb))
            return memo[cid]
        dr = [e for e in d.calls() if reaches_drain(e.callee_resolved or e.callee) or reaches_drain(e.callee)]
        if not dr:
            continue        # C09-1 reports it
        n += 1
        excused = []
        for blk in range(len(d.blocks)):
            s = None if d.is_cleanup(blk) else d.switch_source(blk)
            if s and s["kind"] == "call" and s["event"].method == "needs_drop":
                excused += [(blk, x) for x in d.succ[blk]]
            # a single-cell owner looks at the cell's own occupancy marker (oneshot state == SENT, spmc slot sequence parity, Option slot)
            t = d.term(blk)
            if not d.is_cleanup(blk) and t["k"] == "switch":
                if t.get("on", {}).get("kind") == "discr":
                    src = d.def_event_of_operand({"c": [t["on"]["p"][0], []]})
                    if src is not None and src.kind == "call" and src.method == "take":
                        excused += [(blk, x) for x in d.succ[blk]]
                else:
                    evs, _, _ = mir.operand_sources(d, t["o"])
                    if any(x.kind == "call" and x.is_atomic and x.method == "load" and x.args and re.search(r"\.(state|sequence|seq)$", d.path_of_operand(x.args[0])) for x in evs):
                        excused += [(blk, x) for x in d.succ[blk]]
        thr = [e.pos for e in dr] + [e.pos for e in disconnect.loop_feeders(d, dr, frozenset(excused))]
        # a hand-written `loop { if nothing_left { break } drop(next) }`: entering the loop that contains the drain is the drain
        for e in dr:
            fwd = {p0[0] for p0 in d.pos_reach_set((e.bb, 0), strict=False)}
            for blk in fwd:
                if not d.is_cleanup(blk) and (e.bb, 0) in d.pos_reach_set((blk, 0)) and (blk, 0) in d.pos_reach_set((e.bb, 0)):
                    thr.append((blk, 0))
        reach = d.pos_reach_set((0, 0), removed=frozenset(thr), removed_edges=frozenset(excused), strict=False)
        key = a["path"]
        if (0, 0) not in thr and reach & set(d.exits()):
            res.violated(rid, key, f"a path through {d.id} returns without draining ({', '.join(sorted({e.method for e in dr}))} is skipped on some branch): values still "
                         "stored at teardown on that branch are never dropped", where=dr[0].loc)
        else:
            res.holds(rid, key, f"every path through Drop passes {', '.join(sorted({e.method for e in dr}))}", where=dr[0].loc)
    if n < 5:
        res.violated(rid, "owner-drops", f"expected >= 5 owner Drop bodies with a drain, found {n}")


def clause4(P, res):
    rid = "C09-4"
    res.rule(rid, "recovered items re-enter or return to their owner: an item delivered to a cancelled waiter is reclaimed (cancel_wait on a FULFILLED cell "
                  "reaches reclaim); in-place batch futures restore the not-yet-sent tail into the caller's Vec when dropped")
    b = P.body("fibre::mpmc_v2::unbounded::shared::UnboundedShared::<T>::cancel_wait")
    if b is None:
        res.unclassified(rid, "cancel_wait", "not found")
    else:
        takes = [e for e in b.calls() if e.method == "take" and "WaiterCell" in e.callee_full]
        recl = [e for e in b.calls() if e.method == "reclaim"]
        from rules import cachelib
        ok = takes and recl and all(cachelib.all_paths_pass(b, [(t_, 0) for _, t_ in cachelib.result_switch_edges(b, t, "Some")] or [t.pos], [r.pos for r in recl]) for t in takes)
        if ok:
            res.holds(rid, b.id, "an item taken from a fulfilled cell is passed to reclaim on every path", where=recl[0].loc)
        else:
            res.violated(rid, b.id, "an item already delivered to the cancelled waiter is not reclaimed: it is dropped although its sender was told Ok", where=f"{b.file}:{b.line}")
    n = 0
    for adt in sorted(P.adts):
        if not adt.startswith("fibre::") or not re.search(r"SendBatchMutFuture$", adt) or not common.in_scope(adt):
            continue
        flds = {f["name"]: f for f in P.adt_fields(adt)}
        holds_pending = [f for f in flds if re.search(r"pending|drain|iter", f) and flds[f].get("needs_drop")]
        d = common.drop_body(P, adt)
        key = adt
        n += 1
        if not holds_pending:
            res.holds(rid, key, "future keeps the unsent items in the caller's Vec (nothing to restore)", nontrivial=False)
        elif d is None:
            res.violated(rid, key, f"future moves items out of the caller's Vec into `{holds_pending[0]}` but has no Drop: cancelling it loses the unsent tail")
        else:
            writes_items = any(e.kind == "call" and e.args and re.search(r"\.items$", d.path_of_operand(e.args[0])) and e.method in ("extend", "push", "append", "splice", "insert")
                               or e.kind == "assign" and e.data["p"][1] and re.search(r"\.items$", d.path_of_place(e.data["p"])) for e in d.events)
            if writes_items:
                res.holds(rid, key, f"Drop restores `{holds_pending[0]}` into items", where=f"{d.file}:{d.line}")
            else:
                res.violated(rid, key, f"Drop does not put `{holds_pending[0]}` back into the caller's Vec: a cancelled in-place batch send loses the unsent tail", where=f"{d.file}:{d.line}")
    if n < 3:
        res.unclassified(rid, "batch-mut-futures", f"expected several SendBatchMutFuture types, found {n}")


def clause5(P, res):
    rid = "C09-5"
    res.rule(rid, "physical slot addressing: in ring types that keep a `mask` (physical size - 1) next to a logical capacity, the index of every bounds-checked "
                  "access to the slot buffer is either `x & mask` or is computed without the logical capacity — a walk bounded by the logical capacity skips "
                  "(never drops, never reads) the physical slots beyond it once the ring has wrapped")
    n = 0
    for adt, a in sorted(P.adts.items()):
        if not adt.startswith("fibre::") or not common.in_scope(adt):
            continue
        fields = {f["name"]: f for f in P.adt_fields(adt)}
        logical = [f for f in fields if re.fullmatch(r"cap|capacity|logical_cap", f)]
        if "mask" not in fields or not logical:
            continue
        for b in P.bodies.values():
            if b.self_adt != adt or "::tests::" in b.id:
                continue
            for e in b.events:
                # bounds check of a built-in index: assert(Lt(idx, PtrMetadata(&raw (*self).buf)))
                if e.kind != "assign" or e.data["r"]["k"] != "bin" or e.data["r"]["op"] != "Lt":
                    continue
                lim = b.def_event_of_operand(e.data["r"]["b"])
                if lim is None or lim.kind != "assign" or lim.data["r"]["k"] != "un" or lim.data["r"]["op"] != "PtrMetadata":
                    continue
                n += 1
                key = f"{b.id}:index#{sum(1 for x in b.events if x.kind == 'assign' and x.pos < e.pos and x.data['r']['k'] == 'bin' and x.data['r']['op'] == 'Lt')}"
                idx = e.data["r"]["a"]
                d = b.def_event_of_operand(idx)
                masked = d is not None and d.kind == "assign" and d.data["r"]["k"] == "bin" and d.data["r"]["op"] == "BitAnd" and \
                    any(b.path_of_operand(d.data["r"][s]).endswith(".mask") for s in ("a", "b"))
                evs, _, _ = mir.operand_sources(b, idx)
                uses_cap = [x for x in evs if x.kind == "assign" and x.data["r"]["k"] == "use" and mir.op_place(x.data["r"]["o"]) is not None
                            and b.path_of_place(mir.op_place(x.data["r"]["o"])).rsplit(".", 1)[-1] in logical]
                if masked:
                    res.holds(rid, key, "index is `x & mask`", where=e.loc)
                elif uses_cap:
                    res.violated(rid, key, f"slot index at {e.loc} is derived from the logical capacity (`{logical[0]}` read at {uses_cap[0].loc}) and not masked: physical slots "
                                 "at or beyond the logical capacity are skipped after wrap-around (their values are never dropped)", where=e.loc)
                else:
                    res.holds(rid, key, "index computed without the logical capacity", where=e.loc)
    if n < 2:
        res.violated(rid, "ring-index-sites", f"expected >= 2 bounds-checked slot accesses in rings with mask+capacity, found {n}")


# who may destroy / move out a payload that lives in a MaybeUninit cell (single-destroyer discipline): body -> reason
PAYLOAD_DESTROYERS = {
    "fibre::<spmc::ring_buffer::Slot<T> as core::ops::drop::Drop>::drop": "teardown: the ring is gone, an odd sequence marks an initialised slot",
    "fibre::spmc::ring_buffer::SpmcShared::<T>::try_send_internal": "the single producer drops the previous lap's value in place before overwriting the slot",
    "fibre::spmc::ring_buffer::SpmcShared::<T>::write_batch_unchecked": "same, batch form",
    "fibre::<oneshot::core::OneShotShared<T> as core::ops::drop::Drop>::drop": "teardown of an unreceived value (state SENT)",
    "fibre::oneshot::Receiver::<T>::close_internal": "receiver gone: takes the value under the SENT->TAKEN transition",
    "fibre::oneshot::core::OneShotShared::<T>::decrement_senders": "last sender gone with a value nobody will take (state machine decides)",
    "fibre::oneshot::core::OneShotShared::<T>::try_recv": "the receive itself (SENT->TAKEN CAS)",
    "fibre::oneshot::core::OneShotShared::<T>::poll_recv": "the receive itself (SENT->TAKEN CAS)",
    "fibre::internal::unsynchronized_ring::UnsynchronizedRingBuffer::<T>::pop": "single-threaded ring behind the mpmc mutex: the pop",
    "fibre::spsc::shared::Ring::<T>::pop": "the single consumer's pop",
    "fibre::spsc::shared::Ring::<T>::read_batch": "the single consumer's batch pop",
    "fibre::<spsc::shared::Ring<T> as core::ops::drop::Drop>::drop": "teardown drain",
    "fibre::<internal::unsynchronized_ring::UnsynchronizedRingBuffer<T> as core::ops::drop::Drop>::drop": "teardown drain",
    "fibre::internal::unsynchronized_ring::UnsynchronizedRingBuffer::<T>::clear": "drain under the owner's lock",
}


def clause7(P, res):
    rid = "C09-7"
    res.rule(rid, "one destroyer per payload cell: only the listed functions (the consumer's pop, the single producer's overwrite, teardown) move a value out of or destroy a "
                  "MaybeUninit payload cell (assume_init_read / assume_init_drop / drop_in_place / ptr::read of a cell); a new function that does is a second destroyer that "
                  "races the existing one (e.g. 'the last receiver frees buffered items' while a producer is mid-write) and must be argued before it is admitted")
    n = 0
    for b in P.bodies.values():
        if not b.id.startswith("fibre::") or "::tests::" in b.id or not common.in_scope(b.id):
            continue
        hits = [e for e in b.calls() if e.method in ("assume_init_drop", "assume_init_read", "assume_init") and "MaybeUninit" in e.callee]
        hits += [e for e in b.calls() if e.method == "drop_in_place" and e.args and re.search(r"(value|buf|buffer|slot|data)", b.path_of_operand(e.args[0]))]
        if not hits:
            continue
        n += 1
        root = b.root or b.id
        if b.id in PAYLOAD_DESTROYERS or root in PAYLOAD_DESTROYERS:
            res.holds(rid, b.id, PAYLOAD_DESTROYERS.get(b.id) or PAYLOAD_DESTROYERS[root], where=hits[0].loc, nontrivial=False)
        else:
            res.unclassified(rid, b.id, f"{b.name} destroys or moves out a payload cell at {hits[0].loc} but is not one of the admitted destroyers: a second path that frees the same "
                             "cell can run concurrently with the first (double drop) unless their exclusion is argued — add a row with that argument, or remove the path",
                             where=hits[0].loc)
    if n < 6:
        res.violated(rid, "destroyer-sites", f"expected >= 6 functions that destroy/move out MaybeUninit payload cells, found {n}")


def clause8(P, res):
    from rules import cachelib
    rid = "C09-8"
    res.rule(rid, "oneshot: whoever wins the SENT -> TAKEN transition takes the value: on every path from the success edge of compare_exchange(STATE_SENT, STATE_TAKEN) to the "
                  "function's exit the value slot is emptied (Option::take on the slot) — after TAKEN neither the shared state's Drop nor the last sender frees the slot "
                  "(they act on SENT only), so a winner that backs off (a try_lock that fails) leaks the value")
    n = 0
    for b in P.bodies.values():
        if not b.id.startswith("fibre::oneshot::") or "::tests::" in b.id:
            continue
        for e in b.calls():
            if not (e.is_atomic and e.method in ("compare_exchange", "compare_exchange_weak") and len(e.args) >= 3):
                continue
            cs = [str((b.const_of_operand(a) or {}).get("path", "")) for a in e.args[1:3]]
            if not (cs[0].endswith("STATE_SENT") and cs[1].endswith("STATE_TAKEN")):
                continue
            n += 1
            key = f"{b.id}:SENT->TAKEN"
            oks = cachelib.result_switch_edges(b, e, "Ok")
            for s2 in b.calls():
                if s2.method in ("is_ok", "is_err") and s2.args and b.producer_call(s2.args[0]) is e:
                    for blk in range(len(b.blocks)):
                        if not b.is_cleanup(blk) and b.term(blk)["k"] == "switch":
                            ss = b.switch_source(blk)
                            if ss and ss.get("kind") == "call" and ss["event"] is s2:
                                lab = ("true" if s2.method == "is_ok" else "false")
                                if ss.get("neg"):
                                    lab = "false" if lab == "true" else "true"
                                oks += b.edges_by_label(blk).get(lab, [])
            takes = [t for t in b.calls() if t.method in ("take", "assume_init_read", "assume_init_drop", "assume_init") and ("Option" in t.callee or "MaybeUninit" in t.callee)]
            if not oks:
                res.unclassified(rid, key, "the outcome of the SENT->TAKEN compare_exchange is not branched on in a form the rule recognises", where=e.loc)
            elif takes and cachelib.all_paths_pass(b, [(t, 0) for _, t in oks], [t.pos for t in takes]):
                res.holds(rid, key, f"the winner empties the slot on every path ({takes[0].loc})", where=e.loc)
            else:
                res.violated(rid, key, f"a path from the success edge of the SENT->TAKEN transition at {e.loc} reaches the exit without taking the value out of the slot: nobody "
                             "else will (the other destroyers act on SENT only) — the value is leaked", where=e.loc)
    if n < 2:
        res.violated(rid, "taken-sites", f"expected >= 2 SENT->TAKEN transitions in the oneshot channel, found {n}")


def run(P, ctx):
    res = Result("C09")
    res.extra["explanation"] = "Ownership shapes: storage owners drain on drop, forget-conversions move each owning field once, recovered items re-enter."
    owners = clause1(P, res)
    clause2(P, res)
    clause4(P, res)
    clause5(P, res)
    clause6(P, res, owners or [])
    clause7(P, res)
    clause8(P, res)
    res.notes.append("take-once cell discipline (MaybeUninit reads guarded by the publishing state) is decided under C01-3 / C07-2 and not repeated here")
    return res
