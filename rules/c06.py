"""C06 — async wake and cancel. DESIGN.md §4 C06."""
import re

import mir
from report import Result
from rules import common

CTX_TYPES = ("core::task::wake::Context", "core::task::wake::Waker")
PASSIVE = {"core::task::wake::Context::<'a>::waker", "core::clone::Clone::clone", "core::task::wake::Waker::will_wake",
           "core::task::wake::Waker::clone"}


def ctx_locals(b):
    return {i for i in range(1, b.argc + 1) if any(t in b.locals[i].get("ty", "") for t in CTX_TYPES)} | \
           {i for i, l in enumerate(b.locals) if i > b.argc and False}


def is_ctx_derived(b, op, ctxl):
    evs, args, _ = mir.operand_sources(b, op)
    if args & ctxl:
        return True
    return any(e.kind == "call" and e.callee == "core::task::wake::Context::<'a>::waker" for e in evs)


def registration_events(b):
    """events that hand the current task's waker (or the Context) to something that can wake it."""
    ctxl = ctx_locals(b)
    out = []
    for e in b.events:
        if e.kind == "call":
            if e.callee in PASSIVE or e.callee in mir.TRANSPARENT_METHODS:
                continue
            if any(is_ctx_derived(b, a, ctxl) for a in e.args):
                out.append(e)
        elif e.kind == "assign":
            p = e.data["p"]
            if not p[1]:
                continue  # plain local temp
            r = e.data["r"]
            ops = []
            if r["k"] in ("use", "cast"):
                ops = [r["o"]]
            elif r["k"] in ("agg", "tuple"):
                ops = r["ops"]
            if any(is_ctx_derived(b, o, ctxl) for o in ops):
                out.append(e)
    return out


def poll_like_bodies(P):
    out = []
    for b in P.bodies.values():
        if not (b.id.startswith("fibre::") or b.id.startswith("fibre_cache::")) or not common.in_scope(b.id):
            continue
        if "::tests::" in b.id or "test_util" in b.id or b.kind == "coroutine":
            continue
        pend = [e for e in b.events if e.kind == "assign" and e.data["r"]["k"] == "agg" and e.data["r"]["variant"] == "Pending"
                and e.data["r"]["adt"] == "core::task::poll::Poll"]
        if pend:
            out.append((b, pend))
    return out


def clause1(P, res):
    rid = "C06-1"
    res.rule(rid, "Pending implies registered with the current waker: every Poll::Pending constructed in hand-written poll code is dominated by an "
                  "event in the same poll call that hands this call's Context/waker to the channel (register call, waker stored into a waiter "
                  "record, sub-poll with the same Context, or wake_by_ref) — so a re-poll always refreshes the stored waker")
    n = 0
    for b, pend in poll_like_bodies(P):
        regs = registration_events(b)
        rp = {r.pos for r in regs}
        # `if stored.will_wake(cx.waker()) { /* keep */ } else { store }` : the true edge is as good as a store
        ww_edges = []
        for blk in range(len(b.blocks)):
            s = None if b.is_cleanup(blk) else b.switch_source(blk)
            if s and s["kind"] == "call" and s["event"].callee == "core::task::wake::Waker::will_wake":
                ww_edges.extend(b.edges_by_label(blk).get("false" if s.get("neg") else "true", []))
        covered = b.entry_reach_set(removed=frozenset(rp), removed_edges=frozenset(ww_edges))
        for i, p in enumerate(pend):
            n += 1
            key = f"{b.id}:Pending#{i}"
            if (regs or ww_edges) and p.pos not in covered:
                dom = [r for r in regs if b.dominated_by_any(p.pos, {r.pos})]
                w = dom[-1] if dom else regs[0]
                res.holds(rid, key, f"after {w.callee_full.split('::<')[0].rsplit('::', 2)[-1] if w.kind == 'call' else 'waker store'} at {w.loc}", where=p.loc,
                          witness=[f"Pending {p.loc}"] + [f"registration {r.loc}" for r in dom[:4]])
            else:
                res.violated(rid, key, f"Poll::Pending is returned at {p.loc} on a path that never handed this poll's waker to the channel: the task is never woken "
                             "(or a stale waker from an earlier poll is woken instead)", where=p.loc,
                             witness=[f"Pending {p.loc}"] + [f"registration (not dominating) {r.loc}" for r in regs[:6]])
    if n < 50:
        res.violated(rid, "pending-sites", f"expected >= 50 Pending constructions, found {n} (selector drift)")


# registration kind -> what the owner's Drop must reach. Kinds whose registration cannot dangle or strand a
# wake (wake-all waker lists, single overwritable slots) are listed with the reason they need no Drop.
REG_KINDS = [
    dict(id="spsc-slot", reg=r"^fibre::spsc::shared::SpscShared::<T>::register$", unreg=r"::unregister$",
         why="spsc waiter slot holds the waker (and a pointer into the waiter for sync waiters)"),
    dict(id="mpsc-async-send-queue", reg=r"::register_async_send$", unreg=r"::unregister_async_send$",
         why="mpsc bounded async-send queue is woken one entry per progress publication: a dead entry eats a wake"),
    dict(id="mpsc-async-recv-slot", reg=r"::register_async_recv$", unreg=r"::unregister_async_recv$",
         why="mpsc async receiver slot"),
    dict(id="mpmc-unbounded-waiter", reg=r"::register_waiter$", unreg=r"::(cancel_wait|remove_waiter)$",
         why="mpmc unbounded waiter cell is handed items directly: it must be withdrawn (and a delivered item reclaimed)"),
    dict(id="rendezvous-send", reg=r"^fibre::internal::rendezvous::RendezvousShared::<T, R>::poll_send$", unreg=r"::cancel_sender$",
         why="rendezvous record points into the future (state byte and payload slot)"),
    dict(id="rendezvous-recv", reg=r"^fibre::internal::rendezvous::RendezvousShared::<T, R>::poll_recv$", unreg=r"::cancel_receiver$",
         why="rendezvous record points into the future (state byte and destination slot)"),
    dict(id="hybrid-lock-node", reg=r"^fibre::sync::wait_queue::ListGuard::<'_>::link_back$", unreg=r"::unlink$", only=r"^fibre::sync::",
         why="intrusive wait-list node owned by the future"),
]
QUEUE_KINDS = [
    dict(id="mpmc-async-queue", push=r"waiting_async_(senders|receivers)$", why="mpmc bounded waiter queue entry points at the future's state byte"),
]
NO_DROP_NEEDED = {
    r"wakers(_guard)?$": "spmc slot waker list is wake-all and drained on every publish: a stale waker costs one spurious wake",
    r"consumer_waiter$": "topic mailbox has a single overwritable waiter slot",
}


def fibre_closure(P, start, stop=None):
    seen = {start}
    dq = [start]
    while dq:
        cur = dq.pop()
        b = P.body(cur)
        if b is None:
            continue
        for c in P.callees_of(b):
            if c not in seen and c.startswith("fibre::"):
                seen.add(c)
                dq.append(c)
    return seen


def queue_ops(P, ids, methods):
    out = set()
    for bid in ids:
        b = P.body(bid)
        if not b:
            continue
        for e in b.calls():
            if e.method in methods and e.args:
                out.add(b.path_of_operand(e.args[0]).rsplit(".", 1)[-1])
    return out


def clause2(P, res):
    rid = "C06-2"
    res.rule(rid, "registered futures unregister on drop: for every Future/Stream type whose poll can create a registration that the channel "
                  "keeps by pointer or meters wakes to (slot table), the type (or the handle it is implemented on) has a Drop that reaches "
                  "the matching withdrawal")
    hs = common.handles(P)
    futs = common.future_types(P, hs)
    if len(futs) < 50:
        res.violated(rid, "future-types", f"expected >= 50 Future/Stream types in fibre, found {len(futs)}")
    for adt in sorted(futs):
        pb = common.poll_body(P, adt)
        if pb is None:
            res.unclassified(rid, adt, "no poll body")
            continue
        cl = fibre_closure(P, pb.id)
        db = common.drop_body(P, adt)
        dcl = fibre_closure(P, db.id) if db else set()
        needs = []
        for k in REG_KINDS:
            if k.get("only") and not re.search(k["only"], adt):
                continue
            if any(re.search(k["reg"], x) for x in cl):
                ok = any(re.search(k["unreg"], x) for x in dcl)
                needs.append((k["id"], ok, k["why"]))
        pushed = queue_ops(P, cl, ("push_back", "push"))
        for k in QUEUE_KINDS:
            hit = [q for q in pushed if re.search(k["push"], q)]
            if hit:
                removed = queue_ops(P, dcl, ("remove", "retain", "retain_mut", "swap_remove_back", "drain"))
                ok = all(q in removed for q in hit)
                needs.append((k["id"], ok, k["why"]))
        key = adt
        where = f"{pb.file}:{pb.line}"
        if not needs:
            res.holds(rid, key, "poll creates no pointer-holding or wake-metered registration", where=where, nontrivial=False)
            continue
        bad = [n for n in needs if not n[1]]
        if bad:
            res.violated(rid, key, f"poll can register ({', '.join(n[0] for n in bad)}) but " + ("Drop does not withdraw it" if db else "the type has no Drop")
                         + f": {bad[0][2]}", where=where, witness=[f"{n[0]}: {'ok' if n[1] else 'MISSING'}" for n in needs])
        else:
            res.holds(rid, key, "Drop withdraws: " + ", ".join(n[0] for n in needs), where=where, obligations=len(needs),
                      witness=[f"{n[0]}: {n[2]}" for n in needs])
        # a Stream implemented on a handle: conversions that mem::forget(self) skip Drop and must withdraw too
        if adt in hs:
            for m in P.methods_of(adt, inherent_only=True):
                if m.name not in ("to_sync", "to_async"):
                    continue
                mcl = fibre_closure(P, m.id)
                miss = []
                for k in REG_KINDS:
                    if any(re.search(k["reg"], x) for x in cl) and not any(re.search(k["unreg"], x) for x in mcl):
                        miss.append(k["id"])
                for k in QUEUE_KINDS:
                    hit = [q for q in pushed if re.search(k["push"], q)]
                    if hit and not all(q in queue_ops(P, mcl, ("remove", "retain", "retain_mut", "drain")) for q in hit):
                        miss.append(k["id"])
                if miss:
                    res.violated(rid, m.id, f"conversion forgets `self` (Drop does not run) while a stream registration ({', '.join(miss)}) may be live: the channel keeps a dangling waiter",
                                 where=f"{m.file}:{m.line}")
                else:
                    res.holds(rid, m.id, "conversion withdraws the stream registration before forgetting self", where=f"{m.file}:{m.line}")


WAKE_CALLEES = ("core::task::wake::Waker::wake", "core::task::wake::Waker::wake_by_ref", "std::thread::thread::Thread::unpark")
WAKE_ONE = {
    "mpsc-async-send-queue": (r"::(notify_senders|publish_progress|flush_progress)$",
                              "async senders are woken one per progress publication (metered drip)"),
    "mpmc-async-queue": (None, "a parked async waiter is woken individually when space / an item appears"),
    "hybrid-lock-node": (r"::(wake_next|wake_waiters)$", "unlock wakes exactly the queue head"),
}


def closure_wakes(P, ids):
    for bid in ids:
        b = P.body(bid)
        if b and any(e.callee in WAKE_CALLEES for e in b.calls()):
            return True
    return False


def clause4(P, res):
    rid = "C06-4"
    res.rule(rid, "a consumed wake is passed on: in every wake-one protocol, the Drop of a future that may find its registration already consumed "
                  "(it was woken but will never act) reaches the protocol's notifier so that the next waiter is woken instead")
    hs = common.handles(P)
    futs = common.future_types(P, hs)
    n = 0
    for adt in sorted(futs):
        pb = common.poll_body(P, adt)
        if pb is None:
            continue
        cl = fibre_closure(P, pb.id)
        db = common.drop_body(P, adt)
        dcl = fibre_closure(P, db.id) if db else set()
        kinds = []
        for k in REG_KINDS:
            if k["id"] in WAKE_ONE and not (k.get("only") and not re.search(k["only"], adt)) and any(re.search(k["reg"], x) for x in cl):
                kinds.append(k["id"])
        pushed = queue_ops(P, cl, ("push_back", "push"))
        for k in QUEUE_KINDS:
            if k["id"] in WAKE_ONE and any(re.search(k["push"], q) for q in pushed):
                kinds.append(k["id"])
        for kid in kinds:
            n += 1
            fwd, why = WAKE_ONE[kid]
            key = f"{adt}:{kid}"
            where = f"{db.file}:{db.line}" if db else f"{pb.file}:{pb.line}"
            ok = bool(db) and (any(re.search(fwd, x) for x in dcl) if fwd else closure_wakes(P, dcl))
            if ok:
                res.holds(rid, key, "Drop reaches the notifier", where=where)
            else:
                res.violated(rid, key, f"{why}; this future's Drop only withdraws its own entry and never forwards: if it had already been woken, "
                             "that wake is swallowed and another pending waiter stalls although progress is possible", where=where)
    # mpmc unbounded: path-sensitive on the 'registration already consumed' edge
    for fn in ("fibre::mpmc_v2::unbounded::shared::UnboundedShared::<T>::cancel_wait", "fibre::mpmc_v2::unbounded::shared::UnboundedShared::<T>::timeout_finish"):
        b = P.body(fn)
        if b is None:
            res.unclassified(rid, fn, "function not found")
            continue
        n += 1
        from rules import cachelib
        rw = [e for e in b.calls() if e.method == "remove_waiter"]
        edges = []
        for blk in range(len(b.blocks)):
            s = None if b.is_cleanup(blk) else b.switch_source(blk)
            if s and s["kind"] == "call" and s["event"] in rw:
                edges.extend(b.edges_by_label(blk).get("true" if s.get("neg") else "false", []))
        fw = [e.pos for e in b.calls() if e.method in ("reclaim", "notify_receivers", "handoff_session", "maybe_handoff")]
        # taking a fulfilled item uses the wake; only the non-fulfilled (NOTIFIED) outcome needs forwarding
        took = [e.pos for e in b.calls() if e.method == "take" and "WaiterCell" in e.callee_full]
        if edges and cachelib.all_paths_pass(b, [(t, 0) for _, t in edges], fw + took):
            res.holds(rid, fn, "every consumed-registration path forwards or uses the delivery", where=f"{b.file}:{b.line}")
        else:
            res.violated(rid, fn, "when the waiter was already taken off the list with a NOTIFIED (retry) wake, the wake is neither used nor forwarded: "
                         "another parked receiver is not woken although an item is available", where=f"{b.file}:{b.line}")
    if n < 10:
        res.violated(rid, "wake-one-instances", f"expected >= 10 wake-one instances, found {n}")


def clause5(P, res):
    from rules import cachelib
    rid = "C06-5"
    res.rule(rid, "a wake-metered registration is withdrawn when the future completes: in every poll that can enqueue the task in the mpsc-bounded async-send "
                  "queue (one entry woken per published progress), each Poll::Ready is reachable only through unregister_async_send, through the edge on which the "
                  "future's registration id was found absent, or through the edge on which its payload was already gone (it completed in an earlier poll) — a "
                  "completed future kept alive (pinned, select!) otherwise leaves a dead entry at the head of the queue that swallows the wake of a real waiter")
    n = 0
    for b in P.bodies.values():
        if b.name not in ("poll", "poll_next") or not b.id.startswith("fibre::"):
            continue
        regs = [e for e in b.calls() if (e.method or "") == "register_async_send"]
        if not regs:
            continue
        unregs = [e for e in b.calls() if (e.method or "") == "unregister_async_send"]
        excused = []
        for e in b.calls():
            if e.method == "take" and e.args and re.search(r"\.(my_id|item)$", b.path_of_operand(e.args[0])):
                excused += cachelib.result_switch_edges(b, e, "None")
        reach = b.pos_reach_set((0, 0), removed=frozenset(u.pos for u in unregs), removed_edges=frozenset(excused), strict=False)
        readys = [e for e in b.events if e.kind == "assign" and e.data["r"]["k"] == "agg" and e.data["r"].get("variant") == "Ready"]
        for i, r in enumerate(readys):
            n += 1
            key = f"{b.id}:Ready#{i}"
            if r.pos in reach:
                res.violated(rid, key, f"Poll::Ready at {r.loc} can be returned while the future's entry is still in the async-send queue (no unregister_async_send on the "
                             "way): the next progress publication wakes this finished task instead of a sender that is really waiting", where=r.loc)
            else:
                res.holds(rid, key, "completion passes unregister_async_send (or nothing was registered)", where=r.loc)
    if n < 6:
        res.violated(rid, "ready-sites", f"expected >= 6 Ready sites in polls that register in the async-send queue, found {n}")


PRIM_REG = re.compile(r"^(register|register_async_send|register_async_recv|register_waiter|rearm)$")
LIVE6 = re.compile(r"(receiver_dropped|consumer_dropped|producer_dropped|receiver_count|sender_count|is_disconnected|closed)$")


class StateReads:
    """does a fibre callee (transitively, <= 4 frames) look at shared state / at the other side's liveness?"""

    def __init__(self, P):
        self.P, self.memo = P, {}

    def __call__(self, cid, depth=0):
        if cid in self.memo:
            return self.memo[cid]
        self.memo[cid] = (False, False)
        b = self.P.body(cid)
        if b is None:
            return self.memo[cid]
        data = live = False
        for e in b.calls():
            if e.is_atomic and e.method != "store":
                data = True
                if e.args and LIVE6.search(b.path_of_operand(e.args[0])):
                    live = True
            if e.method in ("lock", "read", "write", "enter"):
                data = True
            if re.search(r"^((senders|receivers)_alive|is_closed|is_disconnected|is_empty)$", e.method or "") and (e.method != "is_empty" or "tails" in (b.path_of_operand(e.args[0]) if e.args else "")):
                live = True
        for ev in b.events:
            if ev.kind == "assign" and ev.data["r"]["k"] == "agg" and ev.data["r"].get("variant") in ("Closed", "Disconnected"):
                live = True
        if depth < 4:
            for cc in self.P.callees_of(b):
                if cc.startswith("fibre::") and cc != cid:
                    dd, ll = self(cc, depth + 1)
                    data, live = data or dd, live or ll
        self.memo[cid] = (data, live)
        return self.memo[cid]


def clause6(P, res):
    rid = "C06-6"
    res.rule(rid, "register, then look again, then Pending: where a poll hands its waker to a lock-free registration slot (register / register_async_send / "
                  "register_async_recv / register_waiter / AtomicWaker::register), every path from that registration to Poll::Pending re-reads the channel state "
                  "(the publisher may have published and notified between the first look and the registration: its notify found no waker), and some look at the "
                  "other side's liveness lies between the two (a disconnect in that window is otherwise never noticed)")
    sr = StateReads(P)
    n = 0
    for b, pend in poll_like_bodies(P):
        regs = [r for r in registration_events(b) if r.kind == "call" and (PRIM_REG.match(r.method or "") or "AtomicWaker" in r.callee) and "sync::" not in b.id.split("<")[-1][:12]]
        if not regs or b.id.startswith("fibre::sync::") or b.id.startswith("fibre::<sync::"):
            continue
        for i, p in enumerate(pend):
            dom = [r for r in regs if b.dominated_by_any(p.pos, {r.pos})]
            if not dom:
                continue
            r = dom[-1]
            n += 1
            key = f"{b.id}:Pending#{i}"
            after = b.pos_reach_set(r.pos)
            data_ev, live_ev = [], []
            for e in b.calls():
                if e.pos == r.pos or e.pos not in after or p.pos not in b.pos_reach_set(e.pos, removed=frozenset([r.pos])):
                    continue      # not between this registration and this Pending (a later loop iteration registers again)
                dd = ll = False
                if e.is_atomic and e.method != "store":
                    dd = True
                    ll = bool(e.args and LIVE6.search(b.path_of_operand(e.args[0])))
                elif (e.callee_resolved or "").startswith("fibre::") and not PRIM_REG.match(e.method or "") and not (e.method or "").startswith("unregister"):
                    dd, ll = sr(e.callee_resolved)
                if re.search(r"^((senders|receivers)_alive|is_closed|is_disconnected)$", e.method or ""):
                    dd = ll = True
                if e.method == "is_empty" and e.args and "tails" in b.path_of_operand(e.args[0]):
                    dd = ll = True      # spmc: an empty cursor list means every receiver is gone
                if dd:
                    data_ev.append(e)
                if ll:
                    live_ev.append(e)
            looks_again = bool(data_ev) and p.pos not in b.pos_reach_set(r.pos, removed=frozenset(x.pos for x in data_ev))
            if not looks_again:
                res.violated(rid, key, f"after registering the waker at {r.loc} a path reaches Poll::Pending at {p.loc} without looking at the channel again: a value (or a "
                             "disconnect) published between the first check and the registration is never noticed and the task is never woken", where=p.loc)
            elif not live_ev:
                res.violated(rid, key, f"between the registration at {r.loc} and Poll::Pending at {p.loc} nothing looks at the other side's liveness: if the last peer handle "
                             "goes away in that window its wake finds no waker and the future pends forever", where=p.loc)
            else:
                res.holds(rid, key, f"re-check at {data_ev[0].loc}, liveness at {live_ev[0].loc}", where=p.loc)
    if n < 15:
        res.violated(rid, "prim-registration-sites", f"expected >= 15 Pending sites behind a lock-free registration, found {n}")


def run(P, ctx):
    res = Result("C06")
    res.extra["explanation"] = "Waker registration, unregistration-on-drop and wake-forwarding shapes of every hand-written future/stream of fibre."
    clause1(P, res)
    clause2(P, res)
    clause4(P, res)
    clause5(P, res)
    clause6(P, res)
    # a pending async receive is woken when an item it could take is left behind: the baton rule of C05-6, judged for the futures
    from rules import c05
    sub = Result("C06")
    c05.clause6(P, sub)
    res.rule("C06-7", "a pending receive future is woken for items another receiver leaves behind: in wake-one protocols whose publisher can carry several items per notify, every "
                      "successful dequeue (also the one made by a batch/stream poll) is followed by the baton that wakes the next waiter — the instances of C05-6")
    for i in sub.instances:
        res.add("C06-7", i.key.split(":", 2)[2], i.status, i.detail, i.witness, i.nontrivial, i.obligations, i.where)
    sub8 = Result("C06")
    c05.clause8(P, sub8)
    res.rule("C06-8", "a pending async send is woken when space is freed (bounded mpmc): every dequeue reaches the scan of the waiting senders and a claimed sender is unlinked — "
                      "the instances of C05-8")
    for i in sub8.instances:
        res.add("C06-8", i.key.split(":", 2)[2], i.status, i.detail, i.witness, i.nontrivial, i.obligations, i.where)
    return res
