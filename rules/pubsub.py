"""Payload publication order (rule families R3+R6): a payload write must be followed by a strong
(>= Release) atomic write before the function exits; a payload read must be preceded by a strong
(>= Acquire) atomic read, and must happen before the index/cursor store that hands the slot back.
Used by C01-3 (point-to-point channels) and C07-2 (broadcast ring)."""
import re

import mir
from rules import orderings

PAYLOAD_FIELDS = ("data", "val", "slot", "value", "value_slot")
WRITE_CALLS = {"core::mem::maybe_uninit::MaybeUninit::<T>::write"}
READ_CALLS = {"core::mem::maybe_uninit::MaybeUninit::<T>::assume_init_read", "core::mem::maybe_uninit::MaybeUninit::<T>::assume_init_ref",
              "core::mem::maybe_uninit::MaybeUninit::<T>::assume_init"}
INDEX_FIELDS = ("head", "tail", "consumer_tail_idx")

# payload writes whose publishing atomic is not in the same body, with where it is (confirmed by reading)
PUBLISHED_ELSEWHERE = {
    r"unbounded_v3::producer::send_internal$|mpmc_v2::unbounded::producer::send_internal$":
        ("callee", r"::publish$", "node value written into a private bump-slab node, then ChainHead::publish (swap AcqRel + next Release)"),
    r"slab_chain::ProducerSlab::<T>::bump_batch$":
        ("caller", r"::publish$", "batch nodes are linked privately (Relaxed next) and published by the caller through ChainHead::publish"),
    r"slab_chain::SlabPool::<T>::acquire$|slab_chain::alloc_slab$":
        ("private", None, "initialises nodes of a slab that no other thread can reach yet"),
    r"unsynchronized_ring::UnsynchronizedRingBuffer::<T>::": ("lock", None, "ring used only under the mpmc channel mutex (see C01-1)"),
    r"oneshot::core::OneShotShared::<T>::send$": ("same", None, "value_slot is a mutex; state swap(SENT, AcqRel) follows"),
}
READ_GUARD_ELSEWHERE = {
    r"as core::ops::drop::Drop>::drop$": "teardown: &mut self, exclusive access",
    r"unsynchronized_ring::UnsynchronizedRingBuffer::<T>::": "ring used only under the mpmc channel mutex (see C01-1)",
    r"WaiterCell::<T>::take$": "callers read the cell state with Acquire first (checked as its own instance)",
    r"oneshot::core::OneShotShared::<T>::decrement_senders$|oneshot::Receiver::<T>::close_internal$": "guarded by the AcqRel state CAS on the same path",
    r"spmc::ring_buffer::SpmcShared::<T>::(try_send_internal|write_batch_unchecked)$": "producer dropping its own previous-lap value before overwriting (only the producer writes slots)",
}


def _ord(b, e):
    return orderings._ordering(b, e)


def payload_writes(b):
    out = []
    for e in b.events:
        if e.kind == "call" and e.callee in WRITE_CALLS:
            out.append(e)
        elif e.kind == "assign" and e.data["r"]["k"] in ("use", "agg"):
            p = e.data["p"]
            if "*" in p[1]:
                path = b.path_of_place(p)
                last = path.rsplit(".", 1)[-1]
                ty = b.locals[p[0]].get("ty", "")
                if last in PAYLOAD_FIELDS and ("*mut" in ty or "*const" in ty or "UnsafeCell" in ty or "&" in ty) and b.kind != "closure":
                    src = b.producer_call({"c": [p[0], []]})
                    if src is not None and src.callee in ("core::cell::UnsafeCell::<T>::get",) or re.search(r"\.(data|val|slot)$", path):
                        out.append(e)
    return out


def payload_reads(b):
    out = []
    for e in b.calls():
        if e.callee in READ_CALLS:
            out.append(e)
        elif e.method == "take" and e.callee.startswith("core::option::Option") and e.args:
            path = b.path_of_operand(e.args[0])
            if path.rsplit(".", 1)[-1] in PAYLOAD_FIELDS:
                src = b.producer_call(e.args[0])
                if src is not None and src.callee == "core::cell::UnsafeCell::<T>::get":
                    out.append(e)
    return out


def atomic_writes(b):
    return [e for e in b.calls() if e.is_atomic and (e.method in ("store", "swap") or e.method.startswith("fetch_") or e.method.startswith("compare_exchange"))]


def atomic_reads(b):
    return [e for e in b.calls() if (e.is_atomic and e.method not in ("store", "new", "get_mut", "into_inner")) or e.is_fence]


def check(P, res, rid, scope):
    """scope: predicate on body"""
    from rules import common
    nW = nR = 0
    for b in P.bodies.values():
        if not b.id.startswith("fibre::") or not common.in_scope(b.id) or "::tests::" in b.id or "miri_tests" in b.id or not scope(b):
            continue
        W = payload_writes(b)
        R = payload_reads(b)
        if not W and not R:
            continue
        aw = atomic_writes(b)
        ar = atomic_reads(b)
        for i, w in enumerate(W):
            nW += 1
            key = f"{b.id}:write#{i}"
            row = next(((k, v) for k, v in PUBLISHED_ELSEWHERE.items() if re.search(k, b.id)), None)
            first = [x for x in aw if x.pos in b.pos_reach_set(w.pos, removed=frozenset(y.pos for y in aw if y is not x))]
            if row and row[1][0] in ("caller", "private", "lock"):
                res.holds(rid, key, row[1][2], where=w.loc, nontrivial=False)
            elif first:
                weak = [x for x in first if (_ord(b, x) or ["?"])[0] not in orderings.STRONG_W]
                exits_wo = not __import__("rules.cachelib", fromlist=["x"]).all_paths_pass(b, [w.pos], [x.pos for x in aw], strict=True)
                if weak:
                    res.violated(rid, key, f"payload written at {w.loc} is published by {weak[0].method}({_ord(b, weak[0])[0]}) at {weak[0].loc}: needs >= Release, "
                                 "otherwise a consumer can observe the index/state before the value", where=w.loc)
                elif exits_wo and not row:
                    res.violated(rid, key, f"a path from the payload write at {w.loc} reaches the function exit without any publishing atomic write", where=w.loc)
                else:
                    res.holds(rid, key, f"write {w.loc} -> {first[0].method}({_ord(b, first[0])[0]}) on `{b.path_of_operand(first[0].args[0]).rsplit('.', 1)[-1]}` {first[0].loc}", where=w.loc,
                              witness=[f"payload write {w.loc}"] + [f"publish {x.loc} {x.method} {_ord(b, x)}" for x in first])
            elif row:
                kind, rx, why = row[1]
                if kind == "callee":
                    ok = any(re.search(rx, e.callee_resolved) and e.pos in b.pos_reach_set(w.pos) for e in b.calls())
                    if ok:
                        res.holds(rid, key, why, where=w.loc)
                    else:
                        res.violated(rid, key, f"payload written at {w.loc} is never published: expected a following call matching {rx}", where=w.loc)
                else:
                    res.holds(rid, key, why, where=w.loc, nontrivial=False)
            else:
                res.violated(rid, key, f"payload written at {w.loc} but no atomic write follows in this function: the value is published before it is written, or never "
                             "(if the publishing store moved above the write, consumers can read an uninitialised slot)", where=w.loc)
        for i, r in enumerate(R):
            nR += 1
            key = f"{b.id}:read#{i}"
            row = next((v for k, v in READ_GUARD_ELSEWHERE.items() if re.search(k, b.id)), None)
            doms = [x for x in ar if b.dominated_by_any(r.pos, {x.pos}) and (_ord(b, x) or ["?"])[0] in orderings.STRONG_R]
            if row:
                res.holds(rid, key, row, where=r.loc, nontrivial=False)
            elif doms:
                # the slot must not be handed back before it is read
                early = [x for x in aw if b.path_of_operand(x.args[0]).rsplit(".", 1)[-1] in INDEX_FIELDS and (_ord(b, x) or ["?"])[0] in orderings.STRONG_W
                         and b.dominated_by_any(r.pos, {x.pos}) and r.pos not in b.pos_reach_set(r.pos)]
                if early:
                    res.violated(rid, key, f"the cursor store at {early[0].loc} hands the slot back before the payload is read at {r.loc}: the producer may overwrite it first", where=r.loc)
                else:
                    res.holds(rid, key, f"read {r.loc} after {doms[-1].method}({_ord(b, doms[-1])[0]}) {doms[-1].loc}", where=r.loc,
                              witness=[f"payload read {r.loc}"] + [f"guard {x.loc} {x.method} {_ord(b, x)}" for x in doms[-3:]])
            else:
                # Ring::pop style: the Acquire refresh is conditional (cached index); require that every load of the guard index in this body is Acquire
                guard_loads = [x for x in ar if x.is_atomic and x.method == "load" and (_ord(b, x) or ["?"])[0] in orderings.STRONG_R]
                if guard_loads and any(r.pos in b.pos_reach_set(x.pos) for x in guard_loads):
                    res.holds(rid, key, f"read {r.loc}; the index it depends on is refreshed with Acquire at {guard_loads[0].loc} (cached otherwise)", where=r.loc)
                else:
                    res.violated(rid, key, f"payload read at {r.loc} is not preceded by any Acquire (or stronger) atomic read in this function: the value may not be visible yet", where=r.loc)
    return nW, nR
