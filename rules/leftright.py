"""left_right::WriteHandle::modify runs its closure twice (once per copy). A closure that consumes or mutably lends out captured state is not
replayable: the second run sees different inputs and the two copies diverge (the stale copy is published by the next modify)."""
import re

import mir


def modify_closures(P, scope_rx):
    """(caller body, modify call event, closure body) for every left_right modify in scope"""
    out = []
    for b in P.bodies.values():
        if not re.search(scope_rx, b.id) or "::tests::" in b.id:
            continue
        for e in b.calls():
            if e.method == "modify" and e.callee.startswith("fibre::internal::left_right") and len(e.args) >= 2:
                cpath = b.path_of_operand(e.args[1])
                cb = P.body(cpath[len("closure:"):]) if cpath.startswith("closure:") else None
                out.append((b, e, cb))
    return out


def env_mut_lends(cb):
    """events in closure body cb that take `&mut` of (a place inside) a captured variable and hand it to a call, or move a captured place out"""
    bad = []
    for e in cb.events:
        if e.kind == "assign":
            r = e.data["r"]
            if r["k"] == "ref" and r.get("mut") and r["p"][0] == 1 and any(str(x).startswith(".^") for x in r["p"][1]):
                # is this reference (or a reborrow of it) passed to a call?
                dst = e.data["p"][0]
                al = mir.alias_locals(cb, dst)
                # follow one level of reborrow  _4 = &mut *_5
                for x in cb.events:
                    if x.kind == "assign" and x.data["r"]["k"] == "ref" and x.data["r"]["p"][0] in al:
                        al = al | {x.data["p"][0]}
                for c in cb.calls():
                    if any((mir.op_place(a) or [None])[0] in al for a in c.args):
                        bad.append((e, c))
            elif r["k"] == "use" and "m" in r["o"] and r["o"]["m"][0] == 1 and any(str(x).startswith(".^") for x in r["o"]["m"][1]):
                bad.append((e, None))
    return bad


def check(P, res, rid, scope_rx, floor):
    res.rule(rid, "left-right updates are replayable: `modify` applies its closure to both copies of the list, so the closure must compute the same result twice — "
                  "it never lends a captured variable out mutably (mem::take / drain / push on captured state) nor moves a captured value out; plain stores of "
                  "Copy results into captures are allowed. A consumed capture leaves the stale copy different from the live one and the next update publishes it")
    n = 0
    for b, e, cb in modify_closures(P, scope_rx):
        n += 1
        key = f"{b.id}:modify#{sum(1 for x in b.calls() if x.method == 'modify' and x.pos < e.pos)}"
        if cb is None:
            res.unclassified(rid, key, "closure passed to modify is not a literal closure of this crate", where=e.loc)
            continue
        bad = env_mut_lends(cb)
        if bad:
            ev, call = bad[0]
            what = f"`&mut` of captured `{[str(x)[2:] for x in (ev.data['r'].get('p') or ev.data['r']['o']['m'])[1] if str(x).startswith('.^')][0]}`"
            res.violated(rid, key, f"the closure given to modify at {e.loc} passes {what} to {call.method if call is not None else 'a move'} ({ev.loc}): the second application "
                         "(to the other copy) sees the already-consumed value, so the two copies of the list diverge", where=e.loc)
        else:
            res.holds(rid, key, "closure only reads its captures (and the list it is given)", where=e.loc)
    if n < floor:
        res.violated(rid, "modify-sites", f"expected >= {floor} left_right modify call sites, found {n}")
    return n
