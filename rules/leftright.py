"""left_right::WriteHandle::modify runs its closure twice (once per copy). A closure that consumes or mutably lends out captured state is not
replayable: the second run sees different inputs and the two copies diverge (the stale copy is published by the next modify)."""
import re

import mir


def modify_closures(P, scope_rx):
    """(caller body, modify call event, closure body) for every left_right modify in scope"""
    out = []
    for b in P.bodies.values():
        if not re.search(scope_rx, b.id) or "::tests::" in b.id:
            continue
        for e in b.calls():
            if e.method == "modify" and e.callee.startswith("fibre::internal::left_right") and len(e.args) >= 2:
                cpath = b.path_of_operand(e.args[1])
                cb = P.body(cpath[len("closure:"):]) if cpath.startswith("closure:") else None
                out.append((b, e, cb))
    return out


def env_mut_lends(cb):
    """events in closure body cb that take `&mut` of (a place inside) a captured variable and hand it to a call, or move a captured place out"""
    bad = []
    for e in cb.events:
        if e.kind == "assign":
            r = e.data["r"]
            if r["k"] == "ref" and r.get("mut") and r["p"][0] == 1 and any(str(x).startswith(".^") for x in r["p"][1]):
                # is this reference (or a reborrow of it) passed to a call?
                dst = e.data["p"][0]
                al = mir.alias_locals(cb, dst)
                # follow one level of reborrow  _4 = &mut *_5
                for x in cb.events:
                    if x.kind == "assign" and x.data["r"]["k"] == "ref" and x.data["r"]["p"][0] in al:
                        al = al | {x.data["p"][0]}
                for c in cb.calls():
                    if any((mir.op_place(a) or [None])[0] in al for a in c.args):
                        bad.append((e, c))
            elif r["k"] == "use" and "m" in r["o"] and r["o"]["m"][0] == 1 and any(str(x).startswith(".^") for x in r["o"]["m"][1]):
                bad.append((e, None))
    return bad


def check(P, res, rid, scope_rx, floor):
    res.rule(rid, "left-right updates are replayable: `modify` applies its closure to both copies of the list, so the closure must compute the same result twice — "
                  "it never lends a captured variable out mutably (mem::take / drain / push on captured state) nor moves a captured value out; plain stores of "
                  "Copy results into captures are allowed. A consumed capture leaves the stale copy different from the live one and the next update publishes it")
    n = 0
    for b, e, cb in modify_closures(P, scope_rx):
        n += 1
        key = f"{b.id}:modify#{sum(1 for x in b.calls() if x.method == 'modify' and x.pos < e.pos)}"
        if cb is None:
            res.unclassified(rid, key, "closure passed to modify is not a literal closure of this crate", where=e.loc)
            continue
        bad = env_mut_lends(cb)
        if bad:
            ev, call = bad[0]
            what = f"`&mut` of captured `{[str(x)[2:] for x in (ev.data['r'].get('p') or ev.data['r']['o']['m'])[1] if str(x).startswith('.^')][0]}`"
            res.violated(rid, key, f"the closure given to modify at {e.loc} passes {what} to {call.method if call is not None else 'a move'} ({ev.loc}): the second application "
                         "(to the other copy) sees the already-consumed value, so the two copies of the list diverge", where=e.loc)
        else:
            res.holds(rid, key, "closure only reads its captures (and the list it is given)", where=e.loc)
    if n < floor:
        res.violated(rid, "modify-sites", f"expected >= {floor} left_right modify call sites, found {n}")
    return n


OVERWRITERS = {"clone_from", "clone_into", "replace", "swap", "take"}


def env_overwrites(cb):
    """events in closure body cb that replace the whole list (the closure's argument) by a value computed from captured state: a lost update —
    whatever other writers did to the list since the captured value was computed is thrown away"""
    bad = []
    list_locals = {2}
    for e in cb.events:  # reborrows / copies of the list reference
        if e.kind == "assign" and e.data["r"]["k"] in ("ref", "use"):
            src = e.data["r"].get("p") or mir.op_place(e.data["r"].get("o"))
            if src and src[0] in list_locals and all(x == "*" for x in src[1]) and e.data["p"][1] == []:
                list_locals.add(e.data["p"][0])

    def from_env(op):
        evs, args, _ = mir.operand_sources(cb, op)
        return 1 in args

    for e in cb.events:
        if e.kind == "call" and e.method in OVERWRITERS and e.args:
            p0 = mir.op_place(e.args[0])
            if p0 and p0[0] in list_locals and any(from_env(a) for a in e.args[1:]):
                bad.append(e)
        elif e.kind == "assign" and e.data["p"][0] in list_locals and e.data["p"][1] == ["*"]:
            r = e.data["r"]
            ops = [r[k] for k in ("o", "a", "b") if isinstance(r.get(k), dict)] + list(r.get("ops", []) or [])
            if any(from_env(o) for o in ops):
                bad.append(e)
    return bad


def check_relative(P, res, rid, scope_rx, floor):
    res.rule(rid, "left-right updates are relative to the list's current content: the closure given to `modify` never replaces the whole list by a value computed from "
                  "captured state (clone_from / assignment / mem::replace from a snapshot taken earlier) — that installs a stale snapshot and silently reverts every "
                  "subscribe, unsubscribe or clone that other threads completed since the snapshot was taken")
    n = 0
    for b, e, cb in modify_closures(P, scope_rx):
        n += 1
        key = f"{b.id}:modify#{sum(1 for x in b.calls() if x.method == 'modify' and x.pos < e.pos)}"
        if cb is None:
            res.unclassified(rid, key, "closure passed to modify is not a literal closure of this crate", where=e.loc)
            continue
        bad = env_overwrites(cb)
        if bad:
            res.violated(rid, key, f"the closure given to modify at {e.loc} overwrites the list with captured data ({bad[0].loc}): updates made by other writers since that "
                         "data was computed are lost", where=e.loc)
        else:
            res.holds(rid, key, "the list is only updated in place (push / retain / remove)", where=e.loc)
    if n < floor:
        res.violated(rid, "modify-sites", f"expected >= {floor} left_right modify call sites, found {n}")
    return n
