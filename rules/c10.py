"""C10 — hybrid locks. DESIGN.md §4 C10."""
import re

import mir
from report import Result
from rules import common, protocols as pr

GUARDS = {
    "fibre::sync::mutex::MutexGuard": ("unlock", "mutex"),
    "fibre::sync::rwlock::ReadGuard": ("unlock_read", "rwlock"),
    "fibre::sync::rwlock::WriteGuard": ("unlock_write", "rwlock"),
}
ORD_RANK = {"Relaxed": 0, "Acquire": 1, "Release": 1, "AcqRel": 2, "SeqCst": 3}


def sync_bodies(P):
    return [b for b in P.bodies.values() if b.id.startswith("fibre::sync::") or b.id.startswith("fibre::<sync::") and True
            if "::tests::" not in b.id and "miri_tests" not in b.id and "test_util" not in b.id]


def orderings(b, e):
    out = []
    for a in e.args:
        c = b.const_of_operand(a)
        if c and "Ordering" in str(c.get("adt", "")):
            out.append(c["variant"])
    return out


def acquire_success_edges(b):
    edges, srcs = [], []
    for blk in range(len(b.blocks)):
        if b.is_cleanup(blk):
            continue
        s = b.switch_source(blk)
        if not s:
            continue
        lab = None
        if s["kind"] == "call":
            e = s["event"]
            if re.fullmatch(r"try_acquire\w*", e.method or ""):
                lab = "false" if s.get("neg") else "true"
            elif e.method in ("is_ok", "is_err") and e.args:
                d = b.producer_call(e.args[0])
                if d is not None and d.is_atomic and d.method.startswith("compare_exchange") and d.args and b.path_of_operand(d.args[0]).endswith(".state"):
                    want = e.method == "is_ok"
                    if s.get("neg"):
                        want = not want
                    lab = "true" if want else "false"
        elif s["kind"] == "discr":
            d = s.get("def")
            if d is not None and d.kind == "call" and d.is_atomic and d.method.startswith("compare_exchange") and d.args and b.path_of_operand(d.args[0]).endswith(".state"):
                lab = "Ok"
        if lab:
            edges.extend(b.edges_by_label(blk).get(lab, []))
            srcs.append((blk, lab))
    return edges, srcs


def clause1(P, res):
    rid = "C10-1"
    res.rule(rid, "a guard exists only after a successful acquisition: every construction of MutexGuard / ReadGuard / WriteGuard is on the success "
                  "edge of try_acquire*() or of the locking compare_exchange on the lock's state word")
    n = 0
    for b in sync_bodies(P):
        aggs = [e for e in b.events if e.kind == "assign" and e.data["r"]["k"] == "agg" and e.data["r"]["adt"] in GUARDS]
        if not aggs:
            continue
        edges, srcs = acquire_success_edges(b)
        for i, a in enumerate(aggs):
            n += 1
            key = f"{b.id}:{a.data['r']['adt'].rsplit('::', 1)[-1]}#{i}"
            if edges and b.edges_dominate(edges, a.pos):
                res.holds(rid, key, f"behind {len(srcs)} acquisition success edge(s)", where=a.loc, witness=[f"guard built {a.loc}"] + [f"bb{x} edge {l}" for x, l in srcs])
            else:
                res.violated(rid, key, f"a {a.data['r']['adt'].rsplit('::', 1)[-1]} is constructed at {a.loc} on a path that has not won the lock: two guards can coexist (mutual exclusion broken)",
                             where=a.loc)
    if n < 10:
        res.violated(rid, "guard-constructions", f"expected >= 10 guard construction sites, found {n} (selector drift; fail closed)")


def clause2(P, res):
    rid = "C10-2"
    res.rule(rid, "guard drop releases with the right strength: each guard's Drop calls its unlock; the unlocking RMW on the state word is at "
                  "least Release; every compare_exchange that takes the lock has success ordering at least Acquire")
    for adt, (unl, _) in GUARDS.items():
        d = common.drop_body(P, adt)
        key = adt + "::drop"
        if d is None:
            res.violated(rid, key, "guard type has no Drop: the lock is never released")
            continue
        calls = [e for e in d.calls() if e.method == unl]
        if calls and all(cl_all_paths(d, c) for c in calls):
            res.holds(rid, key, f"Drop calls {unl}() on every path", where=calls[0].loc)
        else:
            res.violated(rid, key, f"Drop of {adt.rsplit('::', 1)[-1]} does not call {unl}() on every path: the lock stays held", where=f"{d.file}:{d.line}")
    for b in sync_bodies(P):
        if re.search(r"::(unlock|unlock_read|unlock_write)$", b.id):
            rmw = [e for e in b.calls() if e.is_atomic and e.method.startswith("fetch_") and e.args and b.path_of_operand(e.args[0]).endswith(".state")]
            key = b.id + ":release"
            if not rmw:
                res.violated(rid, key, "unlock does not modify the state word", where=f"{b.file}:{b.line}")
                continue
            o = orderings(b, rmw[0])
            if o and o[0] in ("Release", "AcqRel", "SeqCst"):
                res.holds(rid, key, f"state.{rmw[0].method}(.., {o[0]})", where=rmw[0].loc)
            else:
                res.violated(rid, key, f"the unlocking {rmw[0].method} at {rmw[0].loc} is {o}: writes made under the lock are not published to the next owner", where=rmw[0].loc)
        for e in b.calls():
            if e.is_atomic and e.method.startswith("compare_exchange") and e.args and b.path_of_operand(e.args[0]).endswith(".state") and "WaiterNode" not in b.id and "wait_queue" not in b.id:
                # does its success edge lead to a guard / `true` acquisition result? every CAS on the lock word in these files acquires
                o = orderings(b, e)
                key = f"{b.id}:cas@{b.name}"
                if o and o[0] in ("Acquire", "AcqRel", "SeqCst"):
                    res.holds(rid, key, f"acquiring CAS success ordering {o[0]}", where=e.loc)
                else:
                    res.violated(rid, key, f"acquiring compare_exchange at {e.loc} has success ordering {o[:1]}: the new owner does not observe the previous owner's writes", where=e.loc)


def cl_all_paths(b, c):
    from rules import cachelib
    return cachelib.all_paths_pass(b, [(0, 0)], [c.pos])


def clause3(P, res):
    rid = "C10-3"
    res.rule(rid, "release before wake: in unlock* the state RMW dominates wake_next / wake_waiters, and the wakers are invoked only after the "
                  "wait-list guard has been dropped")
    for b in sync_bodies(P):
        if re.search(r"::(unlock|unlock_read|unlock_write)$", b.id):
            rmw = [e for e in b.calls() if e.is_atomic and e.method.startswith("fetch_") and e.args and b.path_of_operand(e.args[0]).endswith(".state")]
            wk = [e for e in b.calls() if e.method in ("wake_next", "wake_waiters")]
            key = b.id
            if not wk:
                res.violated(rid, key, "unlock never wakes a queued waiter", where=f"{b.file}:{b.line}")
            elif rmw and all(b.dominated_by_any(w.pos, {r.pos for r in rmw}) for w in wk):
                res.holds(rid, key, "state released before the wake", where=wk[0].loc)
            else:
                res.violated(rid, key, f"a waiter is woken at {wk[0].loc} before the lock word is released: it re-contends, fails and sleeps with nobody left to wake it", where=wk[0].loc)
        if re.search(r"::(wake_next|wake_waiters)$", b.id):
            locks = [e for e in b.calls() if e.method == "lock" and e.args and b.path_of_operand(e.args[0]).endswith(".waiters")]
            held = mir.guards_held(b, [(l, None) for l in locks])[0] if locks else set()
            wakes = [e for e in b.calls() if e.method == "wake" and "Waiter" in e.callee_full]
            key = b.id
            bad = [w for w in wakes if w.pos in held]
            if wakes and not bad:
                res.holds(rid, key, f"{len(wakes)} wake call(s), all after the list guard is dropped", where=wakes[0].loc)
            elif not wakes:
                res.violated(rid, key, "no waker is invoked", where=f"{b.file}:{b.line}")
            else:
                res.violated(rid, key, f"waker invoked at {bad[0].loc} while the wait-list spinlock is held (a woken task that immediately re-queues deadlocks on it)", where=bad[0].loc)


def clause4(P, res):
    import rules.c05 as c05
    rid = "C10-4"
    c05.clause1(P, res, prop="C10")
    # async form: rearm/link -> HAS_QUEUED RMW -> re-attempt -> Poll::Pending
    for adt in ("fibre::sync::mutex::MutexFuture", "fibre::sync::rwlock::ReadFuture", "fibre::sync::rwlock::WriteFuture"):
        pb = common.poll_body(P, adt)
        key = f"{adt}::poll"
        if pb is None:
            res.unclassified(rid, key, "lock future poll not found")
            continue
        pend = [e for e in pb.events if e.kind == "assign" and e.data["r"]["k"] == "agg" and e.data["r"]["variant"] == "Pending"]
        spec = dict(kind="fence", family="hybrid-lock-async", reg=pr.m(r"rearm"), barrier=pr.m(r"fetch_or", path=r"\.state$"),
                    recheck=pr.m(r"load|compare_exchange(_weak)?", path=r"\.state$"), why="arm the node with the current waker, publish HAS_QUEUED, re-attempt, then Pending")
        ok, detail, wit = pr.check_site(P, pb, pend, spec)
        if ok and pend:
            res.holds(rid, key, "[hybrid-lock-async] " + detail.replace("park", "Pending"), where=f"{pb.file}:{pb.line}", witness=wit)
        else:
            res.violated(rid, key, "[hybrid-lock-async] " + (detail if pend else "poll never returns Pending"), where=f"{pb.file}:{pb.line}", witness=wit)


def woken_tests(b):
    """assign events computing `<node state> == WOKEN` (or !=) in body b"""
    out = []
    for e in b.events:
        if e.kind == "assign" and e.data["r"]["k"] == "bin" and e.data["r"]["op"] in ("Eq", "Ne"):
            for s in ("a", "b"):
                k = b.const_of_operand(e.data["r"][s])
                if k is not None and str(k.get("path", "")).endswith("::WOKEN"):
                    out.append(e)
    return out


def sync_family(P, root, depth=2):
    """root body plus its callees inside fibre::sync (helpers a refactor may have extracted)"""
    seen = {root.id: root}
    frontier = [root]
    for _ in range(depth):
        nxt = []
        for b in frontier:
            for e in b.calls():
                t = P.body(e.callee_resolved)
                if t is not None and t.id not in seen and (t.id.startswith("fibre::sync::") or t.id.startswith("fibre::<sync::")) and t.name not in ("wake_next", "wake_waiters", "wake"):
                    seen[t.id] = t
                    nxt.append(t)
        frontier = nxt
    return list(seen.values())


def clause5(P, res):
    rid = "C10-5"
    res.rule(rid, "a cancelled lock future unlinks its node under the wait-list lock and forwards a wake it consumed: the Drop of each lock future (or a sync-module "
                  "helper it calls) unlinks the node with the list guard held, and the call to wake_next / wake_waiters is taken exactly on the outcome of comparing the "
                  "node's state with WOKEN — not on list membership or any other proxy (a woken writer stays linked while it re-contends)")
    for adt in ("fibre::sync::mutex::MutexFuture", "fibre::sync::rwlock::ReadFuture", "fibre::sync::rwlock::WriteFuture"):
        d = common.drop_body(P, adt)
        key = adt + "::drop"
        if d is None:
            res.violated(rid, key, "lock future has no Drop: a cancelled waiter stays linked (dangling node) and swallows the wake")
            continue
        fam = sync_family(P, d)
        probs = []
        unl = [(b, e) for b in fam for e in b.calls() if e.method == "unlink"]
        if not unl:
            probs.append("never unlinks its node")
        for b, u in unl:
            locks = [e for e in b.calls() if e.method == "lock" and e.args and b.path_of_operand(e.args[0]).endswith(".waiters")]
            held = mir.guards_held(b, [(l, None) for l in locks])[0] if locks else set()
            takes_guard = any("ListGuard" in (l.get("ty") or "") for l in b.locals[1:b.argc + 1])
            if u.pos not in held and not takes_guard:
                probs.append(f"unlinks at {u.loc} without holding the wait-list lock")
        fwd = [(b, e) for b in fam for e in b.calls() if e.method in ("wake_next", "wake_waiters")]
        if not fwd:
            probs.append("never forwards a consumed wake (a waiter woken and then cancelled leaves the next waiter asleep forever)")
        early = []
        for b, f in fwd:
            # the branch that decides the forward must be the outcome of `state == WOKEN`: directly, or through the bool returned by a helper that computes it
            ok = False
            for blk in range(len(b.blocks)):
                if b.is_cleanup(blk):
                    continue
                t = b.term(blk)
                if t["k"] != "switch" or t.get("on", {}).get("kind") == "discr":
                    continue
                evs, _, _ = mir.operand_sources(b, t["o"])
                direct = any(e in evs for e in woken_tests(b))
                if direct:
                    # the sample must be taken after the node left the list (a waker marks nodes WOKEN under the list lock; sampling earlier misses a wake that lands in between)
                    for wt in woken_tests(b):
                        if wt not in evs:
                            continue
                        lds = [x for x in mir.operand_sources(b, {"c": [wt.data["p"][0], []]})[0] if x.kind == "call" and x.is_atomic and x.method == "load"]
                        gates = {u.pos for ub, u in unl if ub is b} | {x.pos for x in b.calls() if P.body(x.callee_resolved) is not None and any(ub is P.body(x.callee_resolved) for ub, _ in unl)}
                        if lds and gates and not all(b.dominated_by_any(l.pos, gates) for l in lds):
                            early.append((lds[0], f))
                via = any(e.kind == "call" and P.body(e.callee_resolved) is not None and P.body(e.callee_resolved) in fam and woken_tests(P.body(e.callee_resolved)) for e in evs)
                if not (direct or via):
                    continue
                for lab in ("true", "false"):
                    es = b.edges_by_label(blk).get(lab, [])
                    if es and b.edges_dominate(es, f.pos):
                        ok = True
            if not ok:
                probs.append(f"the wake forwarded at {f.loc} is not decided by the node's WOKEN state (a proxy such as list membership is wrong for writers, which stay linked after being woken)")
        for l, f in early[:1]:
            probs.append(f"the node state is sampled at {l.loc} before the node is unlinked: a wake that marks it WOKEN between the sample and the unlink is consumed and never forwarded")
        for b, f in fwd:
            same = [u for ub, u in unl if ub is b]
            if same and not b.dominated_by_any(f.pos, {u.pos for u in same}) and not any(ub is not b for ub, _ in unl):
                probs.append("forwards the wake before unlinking")
        if probs:
            res.violated(rid, key, "; ".join(probs), where=f"{d.file}:{d.line}", witness=probs)
        else:
            res.holds(rid, key, "unlink under the list lock, then forward when WOKEN was consumed", where=f"{d.file}:{d.line}", obligations=3)


def clause6(P, res):
    rid = "C10-6"
    res.rule(rid, "type-level and layering facts: ReadGuard has no DerefMut; waiter-node fields other than `state` are touched only inside the "
                  "wait-queue module (under its list guard); try_lock / try_read / try_write reach no parking primitive")
    if P.has_impl("fibre::sync::rwlock::ReadGuard", "core::ops::deref::DerefMut"):
        res.violated(rid, "ReadGuard:DerefMut", "ReadGuard implements DerefMut: shared readers can mutate the protected value")
    else:
        res.holds(rid, "ReadGuard:DerefMut", "no DerefMut impl for ReadGuard")
    for g in GUARDS:
        if P.has_impl(g, "core::clone::Clone"):
            res.violated(rid, g + ":Clone", "guard type is Clone: two guards for one acquisition")
        else:
            res.holds(rid, g + ":Clone", "guard is not Clone")
    # node field access
    bad = []
    n = 0
    for b in P.bodies.values():
        if not b.id.startswith("fibre::") or "::tests::" in b.id or "miri_tests" in b.id:
            continue
        for e in b.events:
            places = []
            if e.kind == "assign":
                places.append(e.data["p"])
                r = e.data["r"]
                if "p" in r:
                    places.append(r["p"])
                for k in ("o", "a", "b"):
                    if k in r and isinstance(r[k], dict) and mir.op_place(r[k]):
                        places.append(mir.op_place(r[k]))
            for p in places:
                if b.locals[p[0]].get("adt") != "fibre::sync::wait_queue::WaiterNode":
                    continue
                flds = [x for x in p[1] if x.startswith(".")]
                if not flds or flds[0] == ".state":
                    continue
                n += 1
                if not (b.id.startswith("fibre::sync::wait_queue::") or "wait_queue::" in b.id):
                    bad.append((b, e, flds[0]))
    if bad:
        b, e, f = bad[0]
        res.violated(rid, "WaiterNode:fields", f"waiter-node field `{f}` accessed at {e.loc} in {b.id}, outside the wait-queue module: node links and waker are only safe under the list lock",
                     where=e.loc)
    else:
        res.holds(rid, "WaiterNode:fields", f"{n} accesses to node fields other than `state`, all inside sync::wait_queue", obligations=max(1, n))
    for nm in ("fibre::sync::mutex::HybridMutex::<T>::try_lock", "fibre::sync::rwlock::HybridRwLock::<T>::try_read", "fibre::sync::rwlock::HybridRwLock::<T>::try_write"):
        b = P.body(nm)
        if b is None:
            res.unclassified(rid, nm, "try_ variant not found")
            continue
        hit = P.reaches([b.id], lambda c: c in pr.PARK_PRIMS or c.endswith("_slow") or c == "std::thread::functions::yield_now")
        if hit:
            res.violated(rid, nm, f"try_ variant can block: reaches {hit[0]} via {' -> '.join(hit[1])}", where=f"{b.file}:{b.line}")
        else:
            res.holds(rid, nm, "reaches no park / slow path / yield", where=f"{b.file}:{b.line}")


def const_int(b, op, depth=0):
    """Integer value of an operand built from named constants with | & ! (how the lock words' masks are written)."""
    k = b.const_of_operand(op)
    if k is not None:
        return k.get("v")
    p = mir.op_place(op)
    if p is None or p[1] or depth > 6:
        return None
    e = b.single_def(p[0])
    if e is None or e.kind != "assign":
        return None
    r = e.data["r"]
    if r["k"] == "bin" and r["op"] in ("BitOr", "BitAnd"):
        x, y = const_int(b, r["a"], depth + 1), const_int(b, r["b"], depth + 1)
        if x is None or y is None:
            return None
        return x | y if r["op"] == "BitOr" else x & y
    if r["k"] == "un" and r["op"] == "Not":
        x = const_int(b, r["a"], depth + 1)
        return None if x is None else (~x) & 0xFFFFFFFFFFFFFFFF
    return None


def mask_gate(b, blk):
    """A switch on `(x & M) != 0` (or `== 0`): (M, edges taken when some bit of M is set), else None."""
    s = b.switch_source(blk)
    if not s or s["kind"] != "cmp" or s["op"] not in ("Ne", "Eq"):
        return None
    for x, z in ((s["a"], s["b"]), (s["b"], s["a"])):
        if const_int(b, z) != 0:
            continue
        p = mir.op_place(x)
        e = b.single_def(p[0]) if p and not p[1] else None
        if e is None or e.kind != "assign" or e.data["r"]["k"] != "bin" or e.data["r"]["op"] != "BitAnd":
            continue
        r = e.data["r"]
        m = const_int(b, r["b"])
        if m is None:
            m = const_int(b, r["a"])
        if m is None:
            continue
        setlab = "true" if (s["op"] == "Ne") != bool(s.get("neg")) else "false"
        return m, b.edges_by_label(blk).get(setlab, [])
    return None


def clause7(P, res):
    rid = "C10-7"
    res.rule(rid, "every class of sleeper is visible to every wake gate: a path that links a waiter and then sleeps announces itself by OR-ing a mask into the lock "
                  "word; an unlock* that wakes only `if prev & M != 0` must test a mask M that intersects every such announced mask — otherwise that class of waiter "
                  "sleeps through the release (masks are evaluated from the constants in the source)")
    for lock, mod in (("HybridMutex", "fibre::sync::mutex"), ("HybridRwLock", "fibre::sync::rwlock")):
        announcers, gates = [], []
        for b in sync_bodies(P):
            if not (b.id.startswith(mod + "::") or b.id.startswith("fibre::<sync::" + mod.rsplit("::", 1)[1])):
                continue
            sleeps = any(e.callee_full in pr.PARK_PRIMS or e.method in ("park", "park_timeout") for e in b.calls()) or \
                any(e.kind == "assign" and e.data["r"]["k"] == "agg" and e.data["r"].get("variant") == "Pending" for e in b.events)
            if sleeps:
                for e in b.calls():
                    if e.is_atomic and e.method == "fetch_or" and b.path_of_operand(e.args[0]).endswith(".state"):
                        v = const_int(b, e.args[1])
                        if v is None:
                            res.unclassified(rid, f"{b.id}:fetch_or", f"announcement mask at {e.loc} is not a constant expression", where=e.loc)
                        else:
                            announcers.append((b, e, v))
            if re.search(r"::(unlock|unlock_read|unlock_write)$", b.id):
                for w in [e for e in b.calls() if e.method in ("wake_next", "wake_waiters")]:
                    for blk in range(len(b.blocks)):
                        g = mask_gate(b, blk)
                        if g and g[1] and b.edges_dominate(g[1], w.pos):
                            gates.append((b, w, g[0]))
        if not announcers or not gates:
            res.violated(rid, f"{lock}:shape", f"expected announcing sleepers and mask-gated wakes, found {len(announcers)} / {len(gates)}")
            continue
        for gb, w, m in gates:
            for ab, e, v in announcers:
                key = f"{gb.name}<-{ab.id.split('::', 2)[-1]}"
                if v & m:
                    res.holds(rid, key, f"wake gate mask {m:#x} sees announcement mask {v:#x}", where=w.loc)
                else:
                    res.violated(rid, key, f"{gb.id} wakes only if prev & {m:#x} != 0, but the sleeper at {e.loc} announces itself with mask {v:#x}: "
                                 "when it is the only kind of waiter queued the release wakes nobody and it sleeps forever", where=w.loc)


def clause8(P, res):
    rid = "C10-8"
    res.rule(rid, "the lock word is only changed by atomic read-modify-write: LOCKED / WRITE_LOCKED / reader count share one word with the queue flags, and the two halves are "
                  "changed by different parties (acquire/release without the list lock, flags under it) — a plain `store` (or load + store) of the word overwrites the "
                  "other party's concurrent change (two guards at once, or a lock nobody owns)")
    n = stores = 0
    for b in sync_bodies(P):
        if not re.search(r"sync::(mutex|rwlock)::", b.id) or b.name == "new":
            continue
        for e in b.calls():
            if e.is_atomic and e.args and b.path_of_operand(e.args[0]).endswith(".state") and "node" not in b.path_of_operand(e.args[0]):
                n += 1
                if e.method == "store":
                    stores += 1
                    res.violated(rid, f"{b.id}:state.store", f"plain store to the lock word at {e.loc}: a concurrent acquire/release between the preceding load and this store is lost",
                                 where=e.loc)
    node_stores = sum(1 for b in sync_bodies(P) for e in b.calls() if e.is_atomic and e.method == "store" and e.args and b.path_of_operand(e.args[0]).endswith("node.state"))
    if n < 25 or node_stores < 2:
        res.violated(rid, "lock-word-sites", f"expected >= 25 atomic operations on the lock words and >= 2 node-state stores (matcher self-check), found {n}/{node_stores}")
    elif not stores:
        res.holds(rid, "lock-word-sites", f"{n} atomic operations on the lock words, none of them a plain store", where="channels/src/sync", obligations=n)


ROLE = [("mutex-acquire", r"sync::mutex::(HybridMutex::<T>::(try_acquire|lock_slow|try_lock)|MutexFuture)"),
        ("rwlock-read", r"sync::rwlock::(HybridRwLock::<T>::(try_acquire_read|read_slow|try_read)|ReadFuture)"),
        ("rwlock-write", r"sync::rwlock::(HybridRwLock::<T>::(try_acquire_write|write_slow|try_write)|WriteFuture)")]


def clause9(P, res):
    rid = "C10-9"
    res.rule(rid, "all acquisition paths of one kind test the same bits: the fast path, the slow path's post-queue re-check, the try_ variant and the future's poll of each "
                  "lock mode decide admission with one and the same mask of the lock word — a path that ignores a bit the others honour (e.g. WRITER_PENDING in the blocking "
                  "reader's re-check) lets that path barge past the gate the others respect (writer starvation), or wait for a bit nobody clears")
    for role, rx in ROLE:
        masks = {}
        for b in sync_bodies(P):
            if not re.search(rx, b.id) or "drop" in b.name:
                continue
            for blk in range(len(b.blocks)):
                g = mask_gate(b, blk)
                if g:
                    masks.setdefault(g[0], []).append((b, blk))
        if not masks:
            res.violated(rid, role, "no admission mask test found (selector drift)")
            continue
        sites = sum(len(v) for v in masks.values())
        if len(masks) == 1:
            m = next(iter(masks))
            res.holds(rid, role, f"{sites} admission tests, all with mask {m:#x}", where=masks[m][0][0].file, obligations=sites)
        else:
            major = max(masks, key=lambda k: len(masks[k]))
            for m, lst in masks.items():
                if m != major:
                    b, blk = lst[0]
                    res.violated(rid, f"{role}:{b.name}", f"{b.id} decides admission with mask {m:#x} while the other {len(masks[major])} {role} paths use {major:#x}: "
                                 "the bits in the difference are ignored (or demanded) by this path only", where=f"{b.file}:{b.line}")


def clause10(P, res):
    from rules import cachelib
    rid = "C10-10"
    res.rule(rid, "re-arming installs the caller's handle and WAITING on every path: ListGuard::rearm is how a slow path or a re-polled future registers the waker of "
                  "*this* attempt; keeping an older handle (conditional store) delivers the wake to a stale waker")
    b = P.body("fibre::sync::wait_queue::ListGuard::<'_>::rearm")
    if b is None:
        res.unclassified(rid, "rearm", "ListGuard::rearm not found")
        return
    wr = [e for e in b.events if e.kind == "assign" and e.data["p"][1] and b.path_of_place(e.data["p"]).endswith(".waiter")] + \
         [e for e in b.calls() if e.method in ("replace", "insert", "write") and e.args and b.path_of_operand(e.args[0]).endswith(".waiter")]
    st = [e for e in b.calls() if e.is_atomic and e.method == "store" and e.args and b.path_of_operand(e.args[0]).endswith(".state")]
    ok_w = wr and cachelib.all_paths_pass(b, [(0, 0)], [e.pos for e in wr])
    ok_s = st and cachelib.all_paths_pass(b, [(0, 0)], [e.pos for e in st])
    if ok_w and ok_s:
        res.holds(rid, "rearm", "waiter handle and WAITING state written on every path", where=wr[0].loc, obligations=2)
    else:
        res.violated(rid, "rearm", ("the node's waiter handle is not replaced on every path: a future re-polled with a different waker keeps the old one and the wake goes to a stale task"
                                    if not ok_w else "the node state is not reset to WAITING on every path"), where=f"{b.file}:{b.line}")


def clause11(P, res):
    rid = "C10-11"
    res.rule(rid, "a lock future that returns Pending has re-armed its node in this poll: every path from the entry of MutexFuture/ReadFuture/WriteFuture::poll to a "
                  "constructed Poll::Pending passes ListGuard::rearm (which installs the current waker AND resets the node to WAITING). A node that was woken stays linked "
                  "but holds no handle; refreshing 'the stored waker' of a linked node re-registers nothing, the next release finds no handle to wake and the future, "
                  "and everyone queued behind it, sleeps with the lock free")
    n = 0
    for b in sync_bodies(P):
        if b.impl_trait != "core::future::future::Future" or b.name != "poll":
            continue
        pend = [e for e in b.events if e.kind == "assign" and e.data["p"][0] == 0 and e.data["r"]["k"] == "agg" and e.data["r"]["adt"] == "core::task::poll::Poll"
                and e.data["r"]["variant"] == "Pending"]
        if not pend:
            continue
        n += 1
        arms = [e for e in b.calls() if e.method == "rearm" and "wait_queue" in e.callee]
        bad = [p for p in pend if not (arms and b.dominated_by_any(p.pos, {a.pos for a in arms}))]
        if bad:
            res.violated(rid, b.id, f"a path reaches Poll::Pending at {bad[0].loc} without ListGuard::rearm in this poll: a node that was woken (handle taken, still linked) "
                         "is left without a wake handle", where=bad[0].loc)
        else:
            res.holds(rid, b.id, f"every Pending follows rearm ({arms[0].loc})", where=pend[0].loc)
    if n < 3:
        res.violated(rid, "lock-futures", f"expected the three lock futures, found {n}")


def clause12(P, res):
    import mir
    rid = "C10-12"
    res.rule(rid, "a woken writer keeps the gate up: in HybridRwLock::wake_waiters the node obtained from first_writer() is neither unlinked nor followed by fix_flags on "
                  "the path that wakes it — WRITER_PENDING must stay raised while the woken writer re-contends (it unlinks itself when it wins). Handing a writer its node "
                  "back at wake time opens the lock to every reader that arrives before the writer runs again, and a steady reader stream starves it without bound")
    bs = [b for b in sync_bodies(P) if b.name == "wake_waiters" and "rwlock" in b.id]
    if not bs:
        res.unclassified(rid, "wake_waiters", "HybridRwLock::wake_waiters not found", where="rules/c10.py")
        return
    for b in bs:
        fw = [e for e in b.calls() if e.method == "first_writer"]
        if not fw:
            res.unclassified(rid, b.id, "wake_waiters no longer looks up the first queued writer: re-read the wake policy", where=f"{b.file}:{b.line}")
            continue
        bad = []
        for f in fw:
            after = b.pos_reach_set(f.pos)
            for e in b.calls():
                if e.pos not in after:
                    continue
                if e.method == "unlink" and len(e.args) > 1 and f in mir.operand_sources(b, e.args[1])[0]:
                    bad.append(e)
                elif e.method == "fix_flags":
                    # fix_flags on the writer path (before the function returns from that branch)
                    takes = [t for t in b.calls() if t.method == "take_and_mark_woken" and len(t.args) > 1 and f in mir.operand_sources(b, t.args[1])[0]]
                    if any(e.pos in b.pos_reach_set(t.pos) for t in takes):
                        bad.append(e)
        if bad:
            res.violated(rid, b.id, f"the first queued writer is woken and {bad[0].method} is called on its path ({bad[0].loc}): the writer gate drops while the writer is "
                         "still re-contending, readers are admitted past it", where=bad[0].loc)
        else:
            res.holds(rid, b.id, "the woken writer stays linked; flags are recomputed only on the reader path", where=fw[0].loc)


def run(P, ctx):
    res = Result("C10")
    res.extra["explanation"] = "Acquisition/guard, release/wake, queue-and-recheck, cancellation and type-level shapes of HybridMutex and HybridRwLock."
    clause1(P, res)
    clause2(P, res)
    clause3(P, res)
    res.rule("C10-4", "arm -> link -> publish HAS_QUEUED by RMW -> re-attempt -> park (blocking forms) / Pending (futures): no path from the "
                      "queueing step to the sleep skips the flag RMW or the re-attempt")
    clause4(P, res)
    clause5(P, res)
    clause6(P, res)
    clause7(P, res)
    clause8(P, res)
    clause9(P, res)
    clause10(P, res)
    clause11(P, res)
    clause12(P, res)
    return res
