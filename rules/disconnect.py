"""Disconnect => wake: the close path of every handle wakes the other side (C05 'or the other side disconnects', C04 mechanism
'last-sender drop wakes receivers / last-receiver drop wakes and fails parked senders')."""
import re

import mir
from rules import common, c04

WAKE_PRIM = re.compile(r"core::task::wake::Waker::(wake|wake_by_ref)$|std::thread::(thread::)?Thread::unpark$|atomic_waker::AtomicWaker::wake$")

# handles whose peers never wait on them: closing wakes nobody (reason recorded; verified by reading)
NO_PEER_WAITS = {
    "fibre::mpmc_v2::unbounded::consumer::UnboundedSyncReceiver": "unbounded: senders never wait for receivers; a pending async receive of the same side is not this handle's business",
    "fibre::mpmc_v2::unbounded::consumer::UnboundedAsyncReceiver": "unbounded: senders never wait (its Drop only withdraws its own registration and forwards a consumed wake, C06-4)",
    "fibre::mpsc::unbounded_v3::consumer::Receiver": "unbounded: senders never wait",
    "fibre::mpsc::unbounded_v3::consumer::AsyncReceiver": "unbounded: senders never wait",
    "fibre::oneshot::Receiver": "oneshot send never waits",
    "fibre::spmc::topic::sync_impl::TopicReceiver": "topic publishing never waits for a receiver",
    "fibre::spmc::topic::async_impl::AsyncTopicReceiver": "topic publishing never waits for a receiver",
}


class Wakes:
    def __init__(self, P):
        self.P = P
        self.memo = {}

    def __call__(self, cid):
        if cid is None:
            return False
        if cid in self.memo:
            return self.memo[cid]
        self.memo[cid] = False
        if WAKE_PRIM.search(cid):
            self.memo[cid] = True
        elif cid in self.P.bodies:
            self.memo[cid] = self.P.reaches([cid], lambda c: bool(WAKE_PRIM.search(c))) is not None
        return self.memo[cid]


def waking_calls(P, b, wakes):
    return [e for e in b.calls() if wakes(e.callee_resolved or e.callee) or wakes(e.callee)]


COUNT_WORDS = ("count", "senders", "receivers", "handles", "alive")


def decision_edges(b):
    """Edges of branches that legitimately decide 'nothing to disconnect': tests of the handle's own closed flag, of a handle counter
    (the outcome of a decrement, or a re-read of a *count* field), and of an is_registered-style own-registration flag."""
    out = []
    for blk in range(len(b.blocks)):
        if b.is_cleanup(blk):
            continue
        s = b.switch_source(blk)
        if not s:
            continue
        ok = False
        if s["kind"] == "call":
            e = s["event"]
            a0 = b.path_of_operand(e.args[0]) if e.args else ""
            if e.is_atomic and (a0.endswith(".closed") or any(w in a0.rsplit(".", 1)[-1] for w in COUNT_WORDS)):
                ok = True
            elif e.method in ("is_ok", "is_err") and e.args:
                d = b.producer_call(e.args[0])
                if d is not None and d.is_atomic and d.args and b.path_of_operand(d.args[0]).endswith(".closed"):
                    ok = True
        elif s["kind"] == "discr":
            d = s.get("def")
            if d is not None and d.kind == "call" and d.is_atomic and d.args and b.path_of_operand(d.args[0]).endswith(".closed"):
                ok = True
        elif s["kind"] == "place" and re.search(r"\.(closed|is_disconnected|disconnected|\w*dropped)$", s["path"]):
            ok = True
        elif s["kind"] == "cmp":
            for side in (s["a"], s["b"]):
                d = b.def_event_of_operand(side)
                pth = c04.origin(b, side)
                last = pth.rsplit(".", 1)[-1]
                if any(w in last for w in COUNT_WORDS):
                    ok = True
                if d is not None and d.kind == "call" and d.is_atomic and d.method in ("fetch_sub", "fetch_add", "load") and d.args and \
                        any(w in b.path_of_operand(d.args[0]).rsplit(".", 1)[-1] for w in COUNT_WORDS):
                    ok = True
                if d is not None and d.kind == "assign" and d.data["r"]["k"] == "bin" and d.data["r"]["op"].startswith("Sub"):
                    pa = mir.op_place(d.data["r"]["a"])
                    if pa is not None and any(w in b.path_of_place(pa).rsplit(".", 1)[-1] for w in COUNT_WORDS):
                        ok = True
        if ok:
            out.extend((blk, t) for t, _ in b.succ_labeled(blk))
    return out


def loop_feeders(b, wk, excused):
    """Iterator::next calls of loops that wake what they iterate over: from the Some edge every path to the next iteration (or out) passes a waking
    call, an inner such loop, or an excused edge (the element's Weak is dead). Fixpoint, so nested loops qualify inside-out.
    `for w in collected { w.wake() }`, `for topic in map { for mailbox in list { if let Some(m) = mailbox.upgrade() { m.disconnect() } } }`."""
    from rules import cachelib
    nexts = [e for e in b.calls() if e.method == "next" and cachelib.result_switch_edges(b, e, "Some")]
    feeders = []
    changed = True
    exits = set(b.exits())
    while changed:
        changed = False
        thr = frozenset([x.pos for x in wk] + [x.pos for x in feeders])
        for e in nexts:
            if e in feeders:
                continue
            bad = False
            for _, t in cachelib.result_switch_edges(b, e, "Some"):
                r = b.pos_reach_set((t, 0), removed=thr, removed_edges=excused, strict=False)
                if e.pos in r or (r & exits):
                    bad = True
            reach_wake = any(b.pos_reach_set((t, 0), strict=False) & thr for _, t in cachelib.result_switch_edges(b, e, "Some"))
            if not bad and reach_wake:
                feeders.append(e)
                changed = True
    return feeders


def dead_peer_edges(b):
    """None edges of `Weak::upgrade()`: the element's owner is already gone, nobody to wake."""
    from rules import cachelib
    out = []
    for e in b.calls():
        if e.method == "upgrade":
            out.extend(cachelib.result_switch_edges(b, e, "None"))
    return out


def chain(P, root, wakes, depth=0, seen=None):
    """bodies on the close path that contain a waking call into fibre code, outermost first"""
    seen = seen if seen is not None else {}
    if root is None or root.id in seen or depth > 5:
        return seen
    wk = waking_calls(P, root, wakes)
    if not wk:
        return seen
    seen[root.id] = (root, wk)
    for e in wk:
        t = P.body(e.callee_resolved)
        if t is not None and t.id.startswith("fibre::"):
            chain(P, common.effective_body(P, t), wakes, depth + 1, seen)
    return seen


def is_leaf_notifier(b, wk):
    """a notifier proper: it invokes the primitives themselves (Waker::wake / unpark), or it consumes a waiter slot/list (take / drain / pop on a
    *wait*/*wak* path) and wakes what it found. Whether it may skip the wake is the notifier gate's business (C05-1/C05-2), not this rule's."""
    if all(WAKE_PRIM.search(e.callee_resolved or e.callee or "") for e in wk):
        return True
    for e in b.calls():
        if e.method in ("take", "drain", "pop", "pop_front", "pop_back") and e.args:
            op, hops = e.args[0], 0
            while op is not None and hops < 4:
                if re.search(r"wait|wak", b.path_of_operand(op)):
                    return True
                pc = b.producer_call(op)       # guard = self.producer_waiter.lock(); guard.take()
                op = pc.args[0] if pc is not None and pc.method in ("deref_mut", "deref", "lock", "as_mut") and pc.args else None
                hops += 1
    return False


def check(P):
    """yield (handle, body, status, detail, where)"""
    from rules import cachelib
    hs = common.handles(P)
    wakes = Wakes(P)
    out = []
    for h in sorted(hs.values(), key=lambda h: h.path):
        db = common.drop_body(P, h.path)
        if db is None:
            out.append((h.path, None, "unclassified", "handle without Drop", ""))
            continue
        ch = chain(P, db, wakes)
        if h.path in NO_PEER_WAITS:
            out.append((h.path, None, "holds", "exempt: " + NO_PEER_WAITS[h.path], f"{db.file}:{db.line}", False))
            continue
        if not ch:
            out.append((h.path, db, "violated", "closing/dropping this handle reaches no waker: a peer parked or pending on the other side is never told about the disconnect", f"{db.file}:{db.line}", True))
            continue
        for bid, (b, wk) in ch.items():
            if is_leaf_notifier(b, wk):
                continue
            # a decision edge excuses the skip only if it is the way out: no wake is reachable after taking it
            wkpos = {e.pos for e in wk}
            dec = frozenset(ed for ed in decision_edges(b) if not (b.pos_reach_set((ed[1], 0), strict=False) & wkpos))
            thr = [e.pos for e in wk] + [e.pos for e in loop_feeders(b, wk, frozenset(dead_peer_edges(b)) | dec)]
            reach = b.pos_reach_set((0, 0), removed=frozenset(thr), removed_edges=dec, strict=False)
            if (0, 0) in thr:
                reach = set()
            if reach & set(b.exits()):
                out.append((h.path, b, "violated", f"in {b.id} a path from entry to return skips the wake ({', '.join(sorted({e.method for e in wk}))}) without passing a "
                            "closed-flag or last-handle test: the disconnect is published but a parked peer may never be woken", wk[0].loc, True))
            else:
                out.append((h.path, b, "holds", f"{', '.join(sorted({e.method for e in wk}))} on every path not excused by a closed/last-handle test", wk[0].loc, True))
    return out


if __name__ == "__main__":
    import sys
    sys.path[:0] = ["/verif", "/verif/engine"]
    from engine import facts
    d, _ = facts.ensure_facts("quick")
    P = mir.Program()
    for c in facts.CRATES:
        P.add(facts.load(d, c))
    for r in check(P):
        print(r[2], r[0].replace("fibre::", ""), "|", (r[1].id if r[1] is not None else "-").replace("fibre::", ""), "|", r[3][:160])
