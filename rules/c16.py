"""C16 — eviction listener notifications. DESIGN.md §4 C16."""
import mir
from report import Result
from rules import cachelib as cl

# which reason a body may report: the cause is a property of the remover
REASON_BY_BODY = [
    ("::remove", "Invalidated", "user removal / invalidate"),
    ("::multi_remove", "Invalidated", "bulk user removal"),
    ("cleanup_ttl_for_shard", "Expired", "TTL cleanup"),
    ("cleanup_tti_for_shard", "Expired", "TTI cleanup"),
    ("cleanup_capacity_for_shard", "Capacity", "capacity pass"),
    ("perform_shard_maintenance", "Capacity", "admission-driven eviction"),
]


def expected_reason(bid):
    for frag, reason, why in REASON_BY_BODY:
        if frag in bid:
            return reason, why
    return None, None


def notif_vec_pushes(b):
    """pushes of (key, value, reason) tuples into a local Vec later drained into the channel."""
    out = []
    for e in b.calls(lambda x: x.method == "push" and x.callee.startswith("alloc::vec::Vec") and "EvictionReason" in x.callee_full):
        out.append(e)
    return out


def removal_behind(b, pos):
    """map removals whose Some edge dominates `pos`."""
    out = []
    for r in cl.map_events(b, {"remove", "remove_entry"}):
        es = cl.result_switch_edges(b, r, "Some")
        if es and b.edges_dominate(es, pos):
            out.append(r)
    return out


def value_from_removed(b, op, removal):
    for vc in mir.derives_from_call(b, op, cl.is_value_call):
        evs, _, _ = mir.operand_sources(b, vc.args[0])
        if removal in evs:
            return True
    return False


def clause1(P, res):
    rid = "C16-1"
    res.rule(rid, "only the remover notifies, about what it removed: every send on the notification channel (or push on a to-be-sent list) is "
                  "on the success edge of a shard-map removal (or in a retain predicate that then returns false) and the value it carries is "
                  "data-derived from value() of the entry that removal returned")
    for b in cl.cache_bodies(P):
        sends = [e for e in b.calls() if cl.is_notification_send(e)]
        pushes = notif_vec_pushes(b)
        for s in sends + pushes:
            kind = "send" if s in sends else "push"
            key = f"{b.id}:{kind}"
            payload = s.args[1] if len(s.args) > 1 else None
            rems = removal_behind(b, s.pos)
            if rems and payload is not None and any(value_from_removed(b, payload, r) for r in rems):
                res.holds(rid, key, f"on the Some edge of the removal at {rems[0].loc}; value from that entry", where=s.loc,
                          witness=[f"{kind} {s.loc}", f"removal {rems[0].loc}"])
                continue
            if kind == "send" and pushes and payload is not None:
                # sending what was pushed: payload derives from iterating the pushed Vec
                evs, _, _ = mir.operand_sources(b, payload)
                vecs = {b.path_of_operand(p.args[0]) for p in pushes}
                it = [x for x in evs if x.kind == "call" and x.method in ("into_iter", "next", "drain", "iter") and x.args]
                if any(b.path_of_operand(x.args[0]) in vecs or any(v in b.path_of_operand(x.args[0]) for v in vecs) for x in it):
                    res.holds(rid, key, "sends the tuples collected on removal success edges (see :push instance)", where=s.loc,
                              witness=[f"send {s.loc}"] + [f"push {p.loc}" for p in pushes])
                    continue
            # retain predicate: the entry is the closure parameter and the predicate returns false afterwards
            if b.kind == "closure" and b.parent and any(r.method == "retain" for r in cl.map_events(P.body(b.parent), {"retain"}) if P.body(b.parent)):
                trues = [e.pos for e in b.events if e.kind == "assign" and e.data["p"] == [0, []] and e.data["r"]["k"] == "use"
                         and (mir.op_const(e.data["r"]["o"]) or {}).get("v") == 1]
                reach = b.pos_reach_set(s.pos)
                from_param = False
                if payload is not None:
                    for vc in mir.derives_from_call(b, payload, cl.is_value_call):
                        _, args, _ = mir.operand_sources(b, vc.args[0])
                        if 3 in args:
                            from_param = True
                if not (reach & set(trues)) and from_param:
                    res.holds(rid, key, "inside a retain predicate: after the send every path returns false (entry removed); value is the predicate's entry",
                              where=s.loc, witness=[f"send {s.loc}"])
                    continue
            res.violated(rid, key, f"notification {kind} at {s.loc} is not tied to a successful removal of the entry it reports "
                         "(phantom or mismatched notification possible)", where=s.loc, witness=[f"{kind} {s.loc}"])


def clause2(P, res):
    rid = "C16-2"
    res.rule(rid, "the reason matches the remover: remove/multi_remove report Invalidated, TTL/TTI cleanup report Expired, capacity pass and "
                  "admission eviction report Capacity; no other body constructs a reason that is sent")
    for b in cl.cache_bodies(P):
        aggs = [e for e in b.events if e.kind == "assign" and e.data["r"]["k"] == "agg" and e.data["r"]["adt"].endswith("listener::EvictionReason")]
        if not aggs:
            continue
        if not ([e for e in b.calls() if cl.is_notification_send(e)] or notif_vec_pushes(b)):
            continue
        exp, why = expected_reason(b.id)
        key = b.id
        got = sorted({e.data["r"]["variant"] for e in aggs})
        if exp is None:
            res.unclassified(rid, key, f"body sends notifications with reason {got} but is not a known remover", where=aggs[0].loc)
        elif got == [exp]:
            res.holds(rid, key, f"{why}: reason {exp}", where=aggs[0].loc, witness=[f"{e.loc}: EvictionReason::{e.data['r']['variant']}" for e in aggs])
        else:
            res.violated(rid, key, f"{why} must report {exp} but constructs {got}", where=aggs[0].loc,
                         witness=[f"{e.loc}: EvictionReason::{e.data['r']['variant']}" for e in aggs])


def clause3(P, res):
    rid = "C16-3"
    res.rule(rid, "each listed removal is notified exactly once when a listener is configured: from the success edge of every removal in "
                  "remove/multi_remove/TTL/TTI/capacity/admission-eviction code every path to the exit passes one send (or one push onto the "
                  "list that is sent), unless no sender is configured; no path passes two")
    for b in cl.cache_bodies(P):
        exp, why = expected_reason(b.id)
        if exp is None:
            continue
        sends = [e for e in b.calls() if cl.is_notification_send(e)]
        pushes = notif_vec_pushes(b)
        emit = pushes if pushes else sends
        # `notification_sender` None edges: nothing to notify
        none_targets = []
        for blk in range(len(b.blocks)):
            if b.is_cleanup(blk):
                continue
            t = b.term(blk)
            if t["k"] == "switch" and t.get("on", {}).get("kind") == "discr" and b.path_of_place(t["on"]["p"]).endswith("notification_sender"):
                none_targets.extend((tgt, 0) for _, tgt in b.edges_by_label(blk).get("None", []))
            s = b.switch_source(blk)
            if s and s["kind"] == "call" and s["event"].method in ("is_some", "is_none") and s["event"].args and b.path_of_operand(s["event"].args[0]).endswith("notification_sender"):
                lab = "false" if s["event"].method == "is_some" else "true"
                if s.get("neg"):
                    lab = "true" if lab == "false" else "false"
                none_targets.extend((tgt, 0) for _, tgt in b.edges_by_label(blk).get(lab, []))
        for r in cl.map_events(b, {"remove", "remove_entry"}):
            key = f"{b.id}:{r.method}"
            es = cl.result_switch_edges(b, r, "Some")
            if not es:
                res.unclassified(rid, key, "removal whose result is not matched", where=r.loc)
                continue
            starts = [(t, 0) for _, t in es]
            through = [e.pos for e in emit] + none_targets
            at_least = cl.all_paths_pass(b, starts, through)
            twice = False
            for e in emit:
                reach = b.pos_reach_set(e.pos, removed=frozenset([r.pos]))
                if reach & {x.pos for x in emit}:
                    twice = True
            if at_least and not twice:
                res.holds(rid, key, f"one notification per successful removal ({'push' if pushes else 'send'} at {emit[0].loc if emit else '?'})", where=r.loc,
                          witness=[f"removal {r.loc}"] + [f"emit {e.loc}" for e in emit], obligations=2)
            elif not at_least:
                res.violated(rid, key, f"a path from the successful removal at {r.loc} reaches the exit without notifying the listener although a sender may be configured",
                             where=r.loc, witness=[f"removal {r.loc}"] + [f"emit {e.loc}" for e in emit])
            else:
                res.violated(rid, key, f"a removal at {r.loc} can be notified twice (a second send is reachable without another removal)", where=r.loc)
        for r in cl.map_events(b, {"retain"}):
            key = f"{b.id}:retain"
            cpath = b.path_of_operand(r.args[1]) if len(r.args) > 1 else ""
            cb = P.body(cpath[len("closure:"):]) if cpath.startswith("closure:") else None
            if cb is None:
                res.unclassified(rid, key, "retain predicate not resolvable", where=r.loc)
                continue
            csends = [e for e in cb.calls() if cl.is_notification_send(e)]
            falses = [e for e in cb.events if e.kind == "assign" and e.data["p"] == [0, []] and e.data["r"]["k"] == "use"
                      and (mir.op_const(e.data["r"]["o"]) or {}).get("v") == 0]
            none_pos = []
            for blk in range(len(cb.blocks)):
                t = cb.term(blk)
                if not cb.is_cleanup(blk) and t["k"] == "switch" and t.get("on", {}).get("kind") == "discr" and cb.path_of_place(t["on"]["p"]).endswith("notification_sender"):
                    none_pos.extend((tgt, 0) for _, tgt in cb.edges_by_label(blk).get("None", []))
            ok = all(cb.dominated_by_any(f.pos, {s.pos for s in csends} | set(none_pos)) for f in falses) and falses
            if ok:
                res.holds(rid, key, "every false (remove) outcome of the predicate follows one send", where=r.loc,
                          witness=[f"retain {r.loc}"] + [f"send {s.loc}" for s in csends])
            else:
                res.violated(rid, key, "retain predicate can remove an entry without notifying", where=r.loc)


def root_local(b, op, depth=0):
    """The local an operand is, or borrows from (through plain copies and refs)."""
    p = mir.op_place(op)
    if p is None or depth > 6:
        return None
    e = b.single_def(p[0]) if not p[1] else None
    if e is not None and e.kind == "assign":
        r = e.data["r"]
        if r["k"] in ("ref", "rawptr"):
            return root_local(b, {"c": [r["p"][0], []]}, depth + 1)
        if r["k"] == "use" and mir.op_place(r["o"]) is not None and not b.locals[p[0]].get("name"):
            return root_local(b, r["o"], depth + 1)
    return p[0]


BUFFER_NEUTRAL = {"push", "len", "is_empty", "reserve", "capacity", "with_capacity"}
BUFFER_KILL = {"clear", "drain", "take", "truncate"}


def clause4(P, res):
    rid = "C16-4"
    res.rule(rid, "a to-be-sent list is sent once: in bodies that collect notifications in a local Vec and send them afterwards, no path leads from one reading "
                  "of the list (the iteration that feeds the channel) to another reading of it without the list being re-created, cleared or drained in between — "
                  "otherwise entries pushed for an earlier removal are delivered again")
    n = 0
    for b in cl.cache_bodies(P):
        pushes = notif_vec_pushes(b)
        bufs = sorted({root_local(b, e.args[0]) for e in pushes} - {None})
        for L in bufs:
            n += 1
            key = f"{b.id}:{b.local_name(L)}"
            reads, kills = [], [e.pos for e in b.defs.get(L, [])]
            for e in b.calls():
                if not any(root_local(b, a) == L for a in e.args):
                    continue
                if e.method in BUFFER_KILL:
                    kills.append(e.pos)
                elif e.method not in BUFFER_NEUTRAL:
                    reads.append(e)
            if not reads:
                res.violated(rid, key, "notifications are pushed onto this list but it is never read", where=pushes[0].loc)
                continue
            again = None
            for r in reads:
                reach = b.pos_reach_set(r.pos, removed=frozenset(kills))
                hit = [x for x in reads if x.pos in reach]
                if hit:
                    again = (r, hit[0])
                    break
            if again:
                res.violated(rid, key, f"the list read at {again[0].loc} ({again[0].method}) can be read again at {again[1].loc} without being re-created or cleared in between: "
                             "notifications collected for an earlier removal are sent a second time", where=again[0].loc,
                             witness=[f"push {p.loc}" for p in pushes] + [f"read {r.loc} {r.method}" for r in reads])
            else:
                res.holds(rid, key, f"{len(reads)} reading(s) of the list, each separated from the next by a fresh list ({len(kills)} re-creation/clear site(s))",
                          where=reads[0].loc, witness=[f"push {p.loc}" for p in pushes] + [f"read {r.loc} {r.method}" for r in reads])
    if n < 1:
        res.violated(rid, "notification-lists", "expected >= 1 to-be-sent notification list (admission eviction in the janitor), found none")


def clause5(P, res):
    rid = "C16-5"
    res.rule(rid, "whoever can evict can notify: every JanitorContext that is built (background janitor, explicit and opportunistic maintenance, introspection flush) "
                  "receives the cache's notification sender (a clone of shared.notification_sender), never a literal None — admission-driven and capacity evictions "
                  "performed through a context without a sender are silent")
    n = 0
    for b in cl.cache_bodies(P):
        for e in b.events:
            if e.kind == "assign" and e.data["r"]["k"] == "agg" and e.data["r"]["adt"].endswith("JanitorContext") and "notification_sender" in e.data["r"]["fields"]:
                n += 1
                r = e.data["r"]
                op = r["ops"][r["fields"].index("notification_sender")]
                evs, args, _ = mir.operand_sources(b, op)
                flows = "notification_sender" in b.path_of_operand(op)
                for x in evs:
                    if x.kind == "assign":
                        pl = x.data["r"].get("p") if x.data["r"]["k"] in ("ref", "rawptr") else (mir.op_place(x.data["r"].get("o")) if x.data["r"]["k"] == "use" else None)
                        if pl and "notification_sender" in b.path_of_place(pl):
                            flows = True
                        if not x.data["p"][1] and b.locals[x.data["p"][0]].get("name") == "notification_sender":
                            flows = True     # the builder's own `let (notifier, notification_sender) = Notifier::spawn(..)`
                    elif x.kind == "call" and any("notification_sender" in b.path_of_operand(a) for a in x.args):
                        flows = True
                key = f"{b.id}:JanitorContext"
                if flows:
                    res.holds(rid, key, "sender cloned from the shared state", where=e.loc)
                else:
                    res.violated(rid, key, f"the maintenance context built at {e.loc} carries no notification sender: evictions performed through it never reach the listener", where=e.loc)
    if n < 4:
        res.violated(rid, "context-sites", f"expected >= 4 JanitorContext constructions, found {n}")


def clause6(P, res):
    """The reason `Expired` is truthful (seed C16-tti-sweep-samples-under-read-lock): the same instances as C12-2 and C12-8, judged for the listener."""
    from rules import c12
    rid = "C16-6"
    sub = Result("C16")
    c12.clause2(P, sub)
    c12.clause8(P, sub)
    res.rule(rid, "an `Expired` notification is truthful: every site that builds EvictionReason::Expired is control-dependent on is_expired() of the entry that was removed, "
                  "and that test and the removal share one acquisition of the shard's write lock (otherwise a value written in between is removed and reported Expired "
                  "while the value that did expire is never reported)")
    for i in sub.instances:
        tail = i.key.split(":", 2)[2]
        res.add(rid, tail, i.status, i.detail, i.witness, i.nontrivial, i.obligations, i.where)


def run(P, ctx):
    res = Result("C16")
    res.extra["explanation"] = "Shapes of listener notification sites in fibre_cache: tied to a successful removal, right reason, exactly one per removal."
    clause1(P, res)
    clause2(P, res)
    clause3(P, res)
    clause4(P, res)
    clause5(P, res)
    clause6(P, res)
    return res
