"""C02 — per-producer FIFO. Partial: only the clauses whose truth is in the shape of the code (DESIGN.md §4 C02 / §9.2).
Index arithmetic of the rings, ticket order and link order are NOT decided."""
import re

import mir
from report import Result
from rules import common, cachelib

PAYLOAD_QUEUES = re.compile(r"(^|\.)(buffer|reclaimed)$")
BACK_TO_FRONT = {"pop", "pop_back", "swap_remove", "rev", "next_back", "rposition", "rfind", "rfold", "split_off", "rotate_left", "rotate_right", "reverse", "sort", "sort_by",
                 "sort_unstable", "sort_by_key"}


def chan_bodies(P):
    return [b for b in P.bodies.values() if (b.id.startswith("fibre::")) and "::tests::" not in b.id and common.in_scope(b.id)
            and not re.search(r"^fibre::<?(sync|internal::left_right|internal::cache_padded|error|coord|telemetry)::", b.id)]


def clause1(P, res):
    rid = "C02-1"
    res.rule(rid, "payload queues are appended at the back and consumed from the front: on the VecDeque fields that hold values in flight (topic mailbox `buffer`, "
                  "mpmc-unbounded `reclaimed`) the only end operations are push_back and pop_front; push_front occurs only where a value that was already taken "
                  "out re-enters (`reclaim`)")
    n = 0
    for b in chan_bodies(P):
        k = 0
        for e in b.calls():
            if e.method not in ("push_back", "push_front", "pop_front", "pop_back", "insert", "remove", "swap_remove_back", "swap_remove_front") or not e.args:
                continue
            if "vec_deque::VecDeque" not in e.callee:
                continue
            pth = b.path_of_operand(e.args[0])
            if not PAYLOAD_QUEUES.search(pth):
                continue
            n += 1
            key = f"{b.id}:{pth.rsplit('.', 1)[-1]}.{e.method}#{k}"
            k += 1
            if pth.endswith("reclaimed") and e.method == "push_front" and b.name.startswith("reclaim"):
                res.holds(rid, key, "re-entry of a recovered value at the head", where=e.loc)
            elif pth.endswith("reclaimed") and e.method == "push_back":
                res.violated(rid, key, f"a recovered value is appended behind later recovered values at {e.loc}: it was taken out first and must go out first (push_front)", where=e.loc)
            elif e.method in ("push_back", "pop_front"):
                res.holds(rid, key, f"{e.method} on `{pth}`", where=e.loc)
            else:
                res.violated(rid, key, f"`{pth}`.{e.method} at {e.loc}: a value leaves or enters the payload queue at the wrong end (or in the middle): values of one producer "
                             "can overtake each other", where=e.loc)
    if n < 6:
        res.violated(rid, "payload-queue-sites", f"expected >= 6 end operations on payload queues, found {n}")


def clause2(P, res):
    rid = "C02-2"
    res.rule(rid, "a recovered value goes out first: in the mpmc-unbounded consumer core the chain is dequeued only on the edge where the `reclaimed` queue was found "
                  "empty, and `reclaim` puts the value at the head of that queue (C02-1)")
    b = P.body("fibre::mpmc_v2::unbounded::shared::UnboundedShared::<T>::pop_locked")
    if b is None:
        res.unclassified(rid, "pop_locked", "consumer core not found")
        return
    pops = [e for e in b.calls() if e.method == "pop_front" and e.args and b.path_of_operand(e.args[0]).endswith("reclaimed")]
    chain = [e for e in b.calls() if e.is_atomic and e.method == "load" and e.args and b.path_of_operand(e.args[0]).endswith(".next")]
    if not pops or not chain:
        res.unclassified(rid, "pop_locked", f"expected reclaimed.pop_front() and a chain `.next` load, found {len(pops)}/{len(chain)}", where=f"{b.file}:{b.line}")
        return
    none_edges = cachelib.result_switch_edges(b, pops[0], "None")
    if none_edges and all(b.edges_dominate(none_edges, c.pos) for c in chain):
        res.holds(rid, "pop_locked", "chain dequeue only after reclaimed.pop_front() returned None", where=chain[0].loc)
    else:
        res.violated(rid, "pop_locked", f"the chain is dequeued at {chain[0].loc} without first finding `reclaimed` empty: a value recovered from a cancelled receiver is "
                     "overtaken by later values of the same producer", where=chain[0].loc)
    callers = [x for x in P.bodies.values() if x.id.startswith("fibre::mpmc_v2::unbounded::") and any(e.callee_resolved == b.id for e in x.calls())]
    # nobody dequeues the chain behind pop_locked's back
    others = [x for x in P.bodies.values() if x.id.startswith("fibre::mpmc_v2::unbounded::shared::") and x.id != b.id and "Drop" not in (x.impl_trait or "")
              and any(e.is_atomic and e.method == "load" and e.args and x.path_of_operand(e.args[0]).endswith(".next") for e in x.calls())
              and any(e.method == "take" and "Option" in e.callee for e in x.calls())]
    if others:
        res.violated(rid, "chain-dequeue-sites", f"{others[0].id} dequeues the chain itself, bypassing the reclaimed-first order of pop_locked", where=f"{others[0].file}:{others[0].line}")
    else:
        res.holds(rid, "chain-dequeue-sites", f"pop_locked is the only chain dequeue ({len(callers)} callers)", where=f"{b.file}:{b.line}")


def clause3(P, res):
    rid = "C02-3"
    res.rule(rid, "batches are walked front to back: in every batch send/receive body the caller's container (`items`, `iter`, `out`, `batch`) is consumed or filled "
                  "only through order-preserving operations (drain(..k), into_iter, by_ref/take/next, push, extend, insert(0, x) of the one value just taken from the "
                  "front) — never pop(), rev(), swap_remove, sort, next_back or rotate, which would permute one producer's values")
    n = 0
    for b in chan_bodies(P):
        if not re.search(r"batch", b.id):
            continue
        names = {l.get("name") for l in b.locals[1:b.argc + 1]}
        uses = [e for e in b.calls() if e.args and re.search(r"(^|\.)(items|iter|out|batch|unsent|buf)$", re.split(r"@", b.path_of_operand(e.args[0]))[0])]
        if not uses:
            continue
        n += 1
        bad = [e for e in uses if e.method in BACK_TO_FRONT and re.search(r"alloc::vec|vec_deque|iter::traits|slice", e.callee)]
        ins = [e for e in uses if e.method == "insert" and "alloc::vec::Vec" in e.callee and len(e.args) > 1 and (b.const_of_operand(e.args[1]) or {}).get("v") != 0]
        if bad or ins:
            e = (bad or ins)[0]
            res.violated(rid, b.id, f"{e.method} on the batch container at {e.loc}: the values of one call no longer enter/leave the channel in the caller's order", where=e.loc)
        else:
            res.holds(rid, b.id, f"{len(uses)} uses of the batch container, all order-preserving", where=uses[0].loc)
    if n < 40:
        res.violated(rid, "batch-bodies", f"expected >= 40 batch send/receive bodies touching the caller's container, found {n}")


def clause4(P, res):
    rid = "C02-4"
    res.rule(rid, "no value is committed to a particular parked receiver before that receiver takes it: on the live control-flow graph (edges contradicting a "
                  "compile-time bool constant removed) of the mpmc-unbounded core nothing reaches WaiterCell::fulfill / handoff_session. A hand-off binds value i to "
                  "waiter A and value i+1 to waiter B; when A's receive is cancelled value i is re-queued and B's consumer sees i+1 before i")
    pre = "fibre::mpmc_v2::unbounded::shared::"
    sess = [b for b in P.bodies.values() if b.id.startswith(pre) and b.name == "handoff_session"]
    fulfil = [b for b in P.bodies.values() if b.id.startswith(pre) and b.name == "fulfill"]
    if not sess and not fulfil:
        res.holds(rid, "handoff", "no hand-off path exists", where="channels/src/mpmc_v2/unbounded/shared.rs", nontrivial=False)
        return
    n = 0
    for b in P.bodies.values():
        if not b.id.startswith("fibre::mpmc_v2::unbounded::") or "::tests::" in b.id or b.name == "handoff_session":
            continue
        live = b.live_positions()
        for e in b.calls():
            if e.method in ("handoff_session", "fulfill") and e.callee_resolved.startswith(pre):
                n += 1
                k = f"{b.id}:{e.method}"
                if e.pos in live:
                    res.violated(rid, k, f"{b.name} reaches {e.method} at {e.loc} on a live path: items are bound to parked receivers at publish time, so a cancelled receive "
                                 "re-queues its value behind one that was already handed to another receiver (per-consumer order of one producer is lost)", where=e.loc)
                else:
                    res.holds(rid, k, "call is behind a compile-time-false switch (dead)", where=e.loc)
    if n < 3:
        res.unclassified(rid, "handoff-sites", f"expected >= 3 call sites of the hand-off session, found {n}: the hand-off code changed shape, re-read it", where="rules/c02.py")


def clause5(P, res):
    import mir
    rid = "C02-5"
    res.rule(rid, "a batch is pulled from the caller's iterator in ticket order: a function that fills slots from an iterator parameter does not hand that iterator to a recursive "
                  "call of itself before its own `next()` calls — the inner frame would take the first elements of the batch for the *later* tickets (a run that straddles a "
                  "chunk boundary comes out permuted). Fill loops advance ticket and iterator together, front to back")
    n = 0
    for b in chan_bodies(P):
        nexts = [e for e in b.calls() if e.method == "next" and "Iterator" in e.callee and e.args]
        if not nexts:
            continue
        # iterator parameters of this body
        iter_args = set()
        for e in nexts:
            _, args, _ = mir.operand_sources(b, e.args[0])
            iter_args |= {a for a in args if a >= 2}
        if not iter_args:
            continue
        n += 1
        rec = [e for e in b.calls() if (e.callee_resolved == b.id or e.callee == b.id) and any(mir.operand_sources(b, a)[1] & iter_args for a in e.args)]
        bad = [r for r in rec if any(b.pos_reaches(r.pos, {x.pos}) for x in nexts)]
        if bad:
            res.violated(rid, b.id, f"{b.name} passes the batch iterator to a recursive call of itself at {bad[0].loc} and pulls from it afterwards ({nexts[0].loc}): the elements are "
                         "consumed by the deeper frame first, so the caller's order is permuted across the recursion", where=bad[0].loc)
        else:
            res.holds(rid, b.id, "iterator consumed front to back in this frame", where=nexts[0].loc, nontrivial=bool(rec))
    if n < 10:
        res.violated(rid, "iterator-fill-bodies", f"expected >= 10 bodies that fill from an iterator parameter, found {n}")


def run(P, ctx):
    res = Result("C02")
    res.extra["explanation"] = ("Only three order-relevant shapes: end discipline of the payload queues, reclaimed-before-chain, and order-preserving traversal of batch containers. "
                                "Ring index arithmetic, ticket/tombstone order, chunk recycling and link order are NOT decided — most of C02 is outside static reach.")
    clause1(P, res)
    clause2(P, res)
    clause3(P, res)
    clause4(P, res)
    clause5(P, res)
    return res
