"""Rule family R6: release/acquire discipline on synchronisation fields. DESIGN.md §3 R6.

A field is a *synchronisation field* when, in its module group, at least one write site is >= Release
and at least one read site is >= Acquire: it carries a happens-before edge that some reader relies on.
Every site on such a field must then be strong (writes >= Release, reads >= Acquire, RMWs either)
unless it falls under one of the frozen, reasoned exemptions below. The exemptions are keyed by
(function, field, method) with the number of weak sites confirmed by reading; more weak sites than
confirmed — i.e. a weakened ordering — is a violation."""
import collections
import json
import os
import re

from rules import common

HERE = os.path.dirname(os.path.abspath(__file__))
STRONG_W = ("Release", "AcqRel", "SeqCst")
STRONG_R = ("Acquire", "AcqRel", "SeqCst")

# field `closed` is a per-handle flag read only by the handle's own operations (never a
# cross-thread publication): excluded from this rule; C04 decides its use.
EXCLUDED_FIELDS = {"closed"}

# reason categories for weak sites, applied in order to (body id, field, method)
CATEGORIES = [
    (lambda b, f, m: b.impl_trait == "core::ops::drop::Drop", "Drop: &mut self, exclusive access — no concurrent reader or writer"),
    (lambda b, f, m: m == "fetch_add" and re.search(r"count$", f), "increment of a handle counter: needs atomicity only, publishes nothing"),
    (lambda b, f, m: re.search(r"::(sender_count|receiver_count|len|is_empty|is_full|capacity)$", b.id), "observer: result is advisory"),
    (lambda b, f, m: "spsc::shared::Ring" in b.id and ((f == "tail" and re.search(r"::(push|producer_free_space)$", b.id)) or (f == "head" and b.id.endswith("::pop"))),
     "spsc: an endpoint reading the index it alone writes"),
    (lambda b, f, m: "spmc::ring_buffer" in b.id and f in ("head", "sequence") and m == "load" and re.search(r"(try_send_internal|producer_space|write_batch_unchecked|Sender::<T>::\w+|Send\w*Future)", b.id),
     "spmc: the single producer reading head / slot sequence, which only it writes"),
    (lambda b, f, m: re.search(r"bounded_v3::shared::Shared::<T>::(deq_once|deq_run)$", b.id) and f == "state" and m == "store",
     "mpsc bounded: consumer resets a drained slot to EMPTY; slot reuse is ordered by the Release stores of drained/progress that follow"),
    (lambda b, f, m: "oneshot::core" in b.id and f in ("state", "sender_count"),
     "oneshot: transitions that publish no payload (EMPTY->CLOSED when no sender exists, post-RMW re-reads, TAKEN bookkeeping after the Acquire CAS)"),
    (lambda b, f, m: re.search(r"WaiterCell::<T>::rearm$|AsyncReceiver<T>>::poll_next$", b.id) and f == "state" and m == "store",
     "own waiter state reset while the waiter is not registered (no other thread holds the pointer)"),
]


def _ordering(b, e):
    out = []
    for a in e.args:
        c = b.const_of_operand(a)
        if c and "Ordering" in str(c.get("adt", "")):
            out.append(c["variant"])
    return out


def module_group(b):
    parts = b.file.split("/")
    # channels/src/<group>/...
    return parts[2] if len(parts) > 3 else parts[-1]


def scan(P, scope=lambda b: True):
    groups = collections.defaultdict(list)
    for b in P.bodies.values():
        if not b.id.startswith("fibre::") or not common.in_scope(b.id) or "::tests::" in b.id or "miri_tests" in b.id:
            continue
        if b.impl_trait == "core::fmt::Debug" or b.id.startswith("fibre::sync::") or "left_right" in b.id:
            continue
        if not scope(b):
            continue
        for e in b.calls():
            if not (e.is_atomic and e.args) or e.method in ("new", "get_mut", "into_inner") or e.is_telemetry:
                continue
            if e.method == "load" and b.only_formatted(e):
                continue  # value only printed by diagnostics logging
            fld = b.path_of_operand(e.args[0]).rsplit(".", 1)[-1]
            if fld in EXCLUDED_FIELDS:
                continue
            o = _ordering(b, e)
            if not o:
                continue
            kind = "W" if e.method == "store" else "R" if e.method == "load" else "RW"
            groups[(module_group(b), fld)].append((b, e, kind, o))
    return groups


def is_weak(kind, o):
    if kind == "W":
        return o[0] not in STRONG_W
    if kind == "R":
        return o[0] not in STRONG_R
    return o[0] not in STRONG_W and o[0] not in STRONG_R


def sync_fields(groups):
    out = {}
    for k, sites in groups.items():
        has_w = any(o[0] in STRONG_W for _, _, kind, o in sites if kind in ("W", "RW"))
        has_r = any(o[0] in STRONG_R for _, _, kind, o in sites if kind in ("R", "RW"))
        if has_w and has_r:
            out[k] = sites
    return out


def category(b, f, m):
    for pred, why in CATEGORIES:
        try:
            if pred(b, f, m):
                return why
        except Exception:
            pass
    return None


def load_rows():
    p = os.path.join(HERE, "ordering_rows.json")
    if not os.path.exists(p):
        return {}
    return json.load(open(p))


def evaluate(P, groups_filter=lambda grp: True):
    """yield per-site verdicts for sync fields: (group, field, body, event, status, detail)"""
    rows = load_rows()
    groups = sync_fields(scan(P))
    out = []
    weak_count = collections.Counter()
    for (grp, fld), sites in sorted(groups.items()):
        if not groups_filter(grp):
            continue
        for b, e, kind, o in sites:
            key = f"{b.id}|{fld}|{e.method}"
            if not is_weak(kind, o):
                out.append((grp, fld, b, e, "holds", f"{e.method}({o[0]})", key))
                continue
            weak_count[key] += 1
            row = rows.get(key)
            why = category(b, fld, e.method)
            if row and why and weak_count[key] <= row["max"]:
                out.append((grp, fld, b, e, "exempt", why, key))
            else:
                need = "Release" if kind == "W" else "Acquire" if kind == "R" else "Acquire/Release"
                out.append((grp, fld, b, e, "violated",
                            f"`{fld}` is a synchronisation field of {grp} (other sites publish with Release and consume with Acquire) but this {e.method} is {o[0]}; "
                            f"needs >= {need}: the happens-before edge readers rely on is lost on weakly ordered hardware (invisible on x86 for loads/stores)", key))
    return out, groups


if __name__ == "__main__":
    # regenerate ordering_rows.json from the current tree (review the categories before committing!)
    import sys
    sys.path.insert(0, os.path.join(os.path.dirname(HERE), "engine"))
    sys.path.insert(0, os.path.dirname(HERE))
    import facts
    import mir
    d, _ = facts.ensure_facts("quick", quiet=True)
    P = mir.Program()
    for c in facts.CRATES:
        P.add(facts.load(d, c))
    rows = {}
    unrev = []
    for (grp, fld), sites in sorted(sync_fields(scan(P)).items()):
        for b, e, kind, o in sites:
            if is_weak(kind, o):
                key = f"{b.id}|{fld}|{e.method}"
                why = category(b, fld, e.method)
                if why is None:
                    unrev.append((key, e.loc, o))
                    continue
                r = rows.setdefault(key, {"max": 0, "reason": why})
                r["max"] += 1
    json.dump(rows, open(os.path.join(HERE, "ordering_rows.json"), "w"), indent=1, sort_keys=True)
    print(len(rows), "exemption rows;", len(unrev), "UNREVIEWED weak sites:")
    for u in unrev:
        print("  ", u)
