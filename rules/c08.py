"""C08 — topic pub/sub. DESIGN.md §4 C08."""
import re

from report import Result
from rules import c04, common, protocols as pr


def run(P, ctx):
    res = Result("C08")
    res.extra["explanation"] = ("Disconnect-protocol clauses (closed gate, last-handle, conversions, drop-once) restricted to the four topic handle types, and a call-graph "
                                "rule that publishing reaches no blocking primitive. Routing by subscription history is NOT decided.")
    full = c04.run(P, ctx)
    res.rule("C08-1", "the C04 clauses on the topic handle types: every recv/try_recv/recv_timeout/send form consults the handle's closed flag; the sender side "
                      "is disconnected only when the last sender handle goes (TopicSender is Clone); conversions keep the closed state; Drop closes once")
    n = 0
    for i in full.instances:
        if "spmc::topic" not in i.key:
            continue
        n += 1
        k = i.key.split(":", 2)[2]
        res.add("C08-1", f"{i.rule}:{k}", i.status, i.detail, i.witness, i.nontrivial, i.obligations, i.where)
    if n < 20:
        res.violated("C08-1", "topic-instances", f"expected >= 20 C04 instances on topic handles, found {n}")
    rid = "C08-2"
    res.rule(rid, "publishing never waits: no path in the call graph from TopicSender::send / AsyncTopicSender::send reaches a parking primitive, "
                  "a blocking channel send/recv, a condition-variable wait or a sleep (short mutexes are the only locks)")
    BLOCKING = re.compile(r"^(std::thread::functions::(park|park_timeout|sleep|yield_now)|std::sync::condvar::Condvar::wait\w*|parking_lot::condvar::Condvar::wait\w*|"
                          r"fibre::sync_util::park_thread\w*|fibre::mpmc_v2::backoff::adaptive_wait|fibre::internal::rendezvous::park_until_terminal)$")
    BLOCKING_FIBRE = re.compile(r"::(send|recv|recv_timeout|send_batch|recv_batch\w*|lock_slow|read_slow|write_slow)$")
    for bid in ("fibre::spmc::topic::sync_impl::TopicSender::<K, T>::send", "fibre::spmc::topic::async_impl::AsyncTopicSender::<K, T>::send"):
        b = P.body(bid)
        if b is None:
            res.unclassified(rid, bid, "publish entry point not found")
            continue
        eff = common.effective_body(P, b)
        start = [eff.id] + [c.id for c in P.children(eff.id)]
        hit = P.reaches(start, lambda c: bool(BLOCKING.match(c)) or (c.startswith("fibre::") and "topic" not in c and bool(BLOCKING_FIBRE.search(c)) and "mailbox" not in c))
        if hit:
            res.violated(rid, bid, f"publishing can block: reaches {hit[0]} via {' -> '.join(hit[1])}", where=f"{b.file}:{b.line}", witness=list(hit[1]))
        else:
            res.holds(rid, bid, f"{len(P.reach_closure(start))} functions reachable, none blocks", where=f"{b.file}:{b.line}")
    from rules import leftright
    leftright.check(P, res, "C08-3", r"^fibre::<?spmc::topic::", 4)
    leftright.check_relative(P, res, "C08-4", r"^fibre::<?spmc::topic::", 4)
    rid = "C08-6"
    res.rule(rid, "the last sender's disconnect reaches every receiver, whatever its subscriptions: in the close path of the topic senders the mailboxes that are told "
                  "`disconnect` are not taken from the per-topic subscription map alone — a receiver that holds no subscription at that moment (never subscribed, or "
                  "unsubscribed from everything) is in none of those lists, is never told, and reports Empty (or blocks in recv) for ever")
    k6 = 0
    for b in P.bodies.values():
        if not re.search(r"^fibre::spmc::topic::(sync_impl::TopicSender|async_impl::AsyncTopicSender)::<K, T>::close_internal", b.id):
            continue
        fam = [b] + [c for c in P.bodies.values() if c.root == b.id and c.id != b.id]
        dis = [(x, e) for x in fam for e in x.calls() if e.method == "disconnect" and "mailbox" in (e.callee or "").lower()]
        if not dis:
            continue
        k6 += 1
        sources = set()
        for x in fam:
            for e in x.calls():
                if e.args:
                    pth = x.path_of_operand(e.args[0])
                    m6 = re.search(r"dispatcher\.(\w+)$", pth.split("@")[0])
                    if m6 and e.method in ("pin", "iter", "lock", "read", "enter", "load", "get"):
                        sources.add(m6.group(1))
        sources.discard("sender_count")
        sources.discard("receiver_count")
        if sources and sources != {"subscriptions"}:
            res.holds(rid, b.id, f"receivers are reached through {sorted(sources)}", where=dis[0][1].loc)
        else:
            res.violated(rid, b.id, "the last sender disconnects only the mailboxes found in the per-topic subscription lists: a receiver without a subscription never observes "
                         "Disconnected", where=dis[0][1].loc)
    if k6 < 2:
        res.unclassified(rid, "sender-close-paths", f"expected the close paths of TopicSender and AsyncTopicSender to disconnect mailboxes, found {k6}", where="rules/c08.py")
    rid = "C08-5"
    res.rule(rid, "a topic's subscriber list is never unhooked from the dispatcher while the channel lives: nothing removes an entry from the dispatcher's topic map "
                  "(papaya map `subscriptions`: remove / remove_if / retain / clear / take) — `subscribe` fetches the list's Arc from the map and pushes its mailbox afterwards, so "
                  "an entry removed in between leaves the new subscriber on an orphaned list that neither `send` nor the last sender's disconnect can reach")
    n5 = 0
    for b in P.bodies.values():
        if not re.search(r"^fibre::<?spmc::topic::", b.id) or "::tests::" in b.id:
            continue
        for e in b.calls():
            if "papaya" not in (e.callee or "") and "papaya" not in (e.callee_full or ""):
                continue
            n5 += 1
            if e.method in ("remove", "remove_if", "remove_entry", "retain", "clear", "take", "compute", "update_or_remove"):
                res.violated(rid, f"{b.id}:{e.method}", f"{b.name} removes topic entries from the dispatcher map at {e.loc}: a concurrent subscribe that already fetched the list "
                             "pushes its mailbox into an orphaned list (never delivered to, never disconnected)", where=e.loc)
    if n5 < 3:
        res.unclassified(rid, "topic-map-sites", f"expected >= 3 uses of the dispatcher's topic map, found {n5}: the map type changed, re-read it", where="rules/c08.py")
    elif not any(i.rule == rid for i in res.instances):
        res.holds(rid, "topic-map", f"{n5} uses of the dispatcher's topic map, none removes an entry", where="channels/src/spmc/topic/core.rs")
    return res
