"""C19 — log routing and shutdown. DESIGN.md §4 C19."""
import mir
from report import Result

CRATE = "fibre_logging::"


def bodies(P):
    return [b for b in P.bodies.values() if b.id.startswith(CRATE) and "::tests::" not in b.id and "::test" not in b.id.lower().split("::")[-1]]


def is_appender_send(e):
    """send/try_send of formatted bytes or of a LogEvent on an appender channel (not the internal error channel)."""
    if not (e.kind == "call" and e.method in ("send", "try_send", "send_batch", "try_send_batch") and e.callee.startswith("fibre::")):
        return False
    f = e.callee_full
    return ("Sender::<alloc::vec::Vec<u8>>" in f) or ("Sender::<model::LogEvent>" in f) or ("Sender::<fibre_logging::model::LogEvent>" in f)


def clause1(P, res):
    rid = "C19-1"
    res.rule(rid, "one delivery path: the `log` bridge and the `tracing` layer both reach EventProcessor::process_event; appender channels are "
                  "written only inside the dispatch path of process_event (the function and the EventProcessor helpers it calls); every send site of process_event is inside the "
                  "per-appender loop and no second send is reachable before the iterator advances")
    pe = "fibre_logging::subscriber::processor::EventProcessor::process_event"
    entries = [b for b in bodies(P) if (b.impl_trait == "log::Log" and b.name == "log") or (b.impl_trait and b.impl_trait.endswith("Layer") and b.name == "on_event")]
    if len(entries) < 2:
        res.violated(rid, "entry-points", f"expected a log::Log::log impl and a tracing Layer::on_event impl, found {[e.id for e in entries]}")
    for e in entries:
        hit = P.reaches([e.id], lambda c: c == pe)
        if hit:
            res.holds(rid, e.id, "reaches process_event: " + " -> ".join(x.rsplit("::", 2)[-2] + "::" + x.rsplit("::", 1)[-1] for x in hit[1]), where=f"{e.file}:{e.line}",
                      witness=list(hit[1]))
        else:
            res.violated(rid, e.id, "this front end does not deliver through EventProcessor::process_event: events emitted through it bypass the routing rules",
                         where=f"{e.file}:{e.line}")
    b = P.body(pe)
    if b is None:
        res.unclassified(rid, pe, "process_event not in the fact base")
        return
    # the dispatch tree: process_event and the EventProcessor helpers it calls (whatever they are named)
    impl = "fibre_logging::subscriber::processor::EventProcessor::"
    tree = {pe}
    work = [b]
    while work:
        x = work.pop()
        for c in P.callees_of(x):
            if c.startswith(impl) or c.startswith(pe + "::"):
                if c not in tree and P.body(c) is not None:
                    tree.add(c)
                    work.append(P.body(c))
    n = 0
    for x in bodies(P):
        for sd in x.calls(is_appender_send):
            n += 1
            key = f"{x.id}:{sd.method}"
            if x.id in tree:
                res.holds(rid, key, "appender channel written inside the dispatch path of process_event", where=sd.loc)
            else:
                res.violated(rid, key, f"appender channel written at {sd.loc} outside the dispatch path of process_event: the event bypasses filtering or is delivered twice", where=sd.loc)
    if n < 4:
        res.violated(rid, "appender-sends", f"expected >= 4 appender sends (bytes and events, Block + DropNewest each), found {n}")
    nexts = {e.pos for e in b.calls() if e.method == "next" and e.callee == "core::iter::traits::iterator::Iterator::next"}
    senders = {c for c in tree if c != pe and P.body(c) is not None and P.body(c).calls(is_appender_send)}
    sites = [e for e in b.calls() if e.callee_resolved in senders or is_appender_send(e)]
    if not sites:
        res.violated(rid, "process_event:send-sites", "process_event reaches no appender send", where=f"{b.file}:{b.line}")
    for k, sd in enumerate(sites):
        key = f"process_event:send-site#{k}"
        again = b.pos_reach_set(sd.pos, removed=frozenset(nexts))
        dup = [x for x in sites if x.pos in again]
        in_loop = sd.pos in b.pos_reach_set(sd.pos)
        if dup:
            res.violated(rid, key, f"after the send at {sd.loc} another appender send ({dup[0].loc}) is reachable within the same loop iteration: an appender can get the event twice", where=sd.loc)
        elif not in_loop:
            res.violated(rid, key, f"the send at {sd.loc} is not inside the per-appender loop", where=sd.loc)
        else:
            res.holds(rid, key, "inside the per-appender loop, no second send before the iterator advances", where=sd.loc, obligations=2)


def clause2(P, res):
    rid = "C19-2"
    res.rule(rid, "Block means block: wherever the dispatch path writes an appender channel, the write sits on an arm of a match on the appender's OverflowPolicy, and the "
                  "Block arm performs the blocking `send`, never try_send")
    found = 0
    for b in bodies(P):
        sends_all = b.calls(is_appender_send)
        if not sends_all:
            continue
        found += 1
        edges = []
        for blk in range(len(b.blocks)):
            t = b.term(blk)
            if not b.is_cleanup(blk) and t["k"] == "switch" and t.get("on", {}).get("adt", "").endswith("OverflowPolicy"):
                edges.extend(b.edges_by_label(blk).get("Block", []))
        if not edges:
            res.violated(rid, b.id, "appender channel written without a match on the overflow policy: the Block policy is not honoured", where=f"{b.file}:{b.line}")
            continue
        region = b.entry_reach_set() - b.entry_reach_set(removed_edges=frozenset(edges))
        sends = [e for e in sends_all if e.pos in region]
        blocking = [e for e in sends if e.method == "send"]
        lossy = [e for e in sends if e.method != "send"]
        if blocking and not lossy:
            res.holds(rid, b.id, f"Block arm calls the blocking send at {blocking[0].loc}", where=blocking[0].loc, witness=[f"{e.loc}: {e.callee_full}" for e in sends])
        else:
            res.violated(rid, b.id, "the Block arm does not perform a blocking send" + (f" (uses {lossy[0].method} at {lossy[0].loc})" if lossy else ""),
                         where=f"{b.file}:{b.line}")
    if found < 1:
        res.unclassified(rid, "send-bodies", "no body writes an appender channel", where="rules/c19.py")


def clause3(P, res):
    rid = "C19-3"
    res.rule(rid, "nothing accepted is stranded at shutdown: either shutdown closes the appender channels before it raises the stop flag, or every "
                  "writer's final drain loop ends only when the channel reports Disconnected (not merely Empty)")
    sh = [b for b in bodies(P) if b.name == "shutdown_impl"]
    if not sh:
        res.unclassified(rid, "shutdown_impl", "shutdown routine not found")
        return
    b = sh[0]
    store = [e for e in b.calls() if e.is_atomic and e.method == "store" and e.args and b.path_of_operand(e.args[0]).endswith("shutdown_signal")]
    close = [e for e in b.calls() if e.method == "close_channels"]
    a_ok = bool(store and close) and all(b.dominated_by_any(s.pos, {c.pos for c in close}) for s in store)
    writers = [w for w in bodies(P) if w.name == "run_byte_appender_writer"]
    b_ok = bool(writers)
    wit = []
    for w in writers:
        recvs = [e for e in w.calls() if e.method in ("try_recv", "recv", "recv_timeout") and e.callee.startswith("fibre::")]
        exits = set(w.exits())
        term = []
        for r in recvs:
            others = frozenset(x.pos for x in recvs if x is not r)
            if w.pos_reach_set(r.pos, removed=others) & exits and r.pos in w.pos_reach_set(r.pos):
                term.append(r)
        # terminal drain: a receive in a loop from which the function can return without another receive
        final = [r for r in term if r.method == "try_recv"]
        if not final:
            b_ok = False
            wit.append(f"{w.id}: no terminal drain loop found")
            continue
        for r in final:
            dest = r.data["d"][0]
            al = mir.alias_locals(w, dest)
            disc = False
            for blk in range(len(w.blocks)):
                t = w.term(blk)
                if not w.is_cleanup(blk) and t["k"] == "switch" and t.get("on", {}).get("adt", "").endswith("TryRecvError") and t["on"]["p"][0] in al:
                    disc = True
            if not disc:
                b_ok = False
                wit.append(f"{w.id}: final drain at {r.loc} stops at the first Err (Empty included)")
    key = b.id
    if a_ok:
        res.holds(rid, key, "channels are closed before the stop flag is raised", where=f"{b.file}:{b.line}")
    elif b_ok:
        res.holds(rid, key, "writers drain until Disconnected", where=f"{b.file}:{b.line}")
    else:
        res.violated(rid, key, "shutdown raises the stop flag before closing the appender channels, and the writer's final drain stops at Empty: an event "
                     "accepted by a blocking send after the writer's last try_recv but before close_channels() is never written",
                     where=store[0].loc if store else f"{b.file}:{b.line}",
                     witness=[f"flag store {s.loc}" for s in store] + [f"close_channels {c.loc}" for c in close] + wit)


def clause4(P, res):
    from rules import cachelib
    rid = "C19-4"
    res.rule(rid, "every appender's logger rules take part in the routing decision: in the dispatch path (process_event and its closures) the per-actor lookup "
                  "find_most_specific_rule is made on every path through the body that contains it — the non-additivity gate is the most specific matching logger "
                  "over ALL actors, so a lookup skipped for one actor (because it could not accept the level anyway) removes that actor's non-additive logger from "
                  "the search and lets an ancestor's appenders receive what the child should confine")
    n = 0
    pe = [b for b in bodies(P) if b.name == "process_event" or (b.root or "").endswith("::process_event") or "::process_event::" in b.id]
    for b in pe:
        for e in b.calls():
            if e.method == "find_most_specific_rule":
                n += 1
                key = f"{b.id}:lookup"
                if cachelib.all_paths_pass(b, [(0, 0)], [e.pos]):
                    res.holds(rid, key, "lookup on every path", where=e.loc)
                else:
                    res.violated(rid, key, f"a path through {b.name if b.kind == 'method' else 'the per-actor closure'} returns without consulting the actor's logger rules "
                                 f"({e.loc} is conditional): that actor's non-additive logger no longer gates the other appenders", where=e.loc)
    if n < 1:
        res.unclassified(rid, "lookup-sites", "expected the per-actor rule lookup in process_event, found none: the routing code changed shape", where="rules/c19.py")


def clause5(P, res):
    import mir
    rid = "C19-5"
    res.rule(rid, "the most specific logger is chosen among the loggers whose name is a module-path prefix of the target: in find_most_specific_rule the `::`-boundary test "
                  "(target_matches_prefix) is applied to every rule before the longest one is selected — as an Iterator::filter upstream of the max/max_by_key, or, in loop "
                  "form, on the edge that dominates every update of the candidate. Selecting the longest *textual* prefix first and testing the boundary afterwards lets "
                  "`svc::db` shadow `svc` for the target `svc::db_pool`: the lookup returns nothing and a non-additive ancestor stops gating")
    bs = [b for b in bodies(P) if b.name == "find_most_specific_rule" and b.kind == "method"]
    if not bs:
        res.unclassified(rid, "find_most_specific_rule", "rule lookup not found", where="rules/c19.py")
        return
    for b in bs:
        fam = [b] + [c for c in P.bodies.values() if c.root == b.id and c.id != b.id or c.parent == b.id]
        # iterator-chain form
        filt = None
        for e in b.calls():
            if e.method == "filter" and "iter::traits::iterator::Iterator" in e.callee and len(e.args) > 1:
                cp = b.path_of_operand(e.args[1])
                cb = P.body(cp[len("closure:"):]) if cp.startswith("closure:") else None
                if cb is not None and any(x.method == "target_matches_prefix" for x in cb.calls()):
                    filt = e
        maxes = [e for e in b.calls() if e.method in ("max_by_key", "max_by", "max", "last", "fold", "reduce") and "iter::traits::iterator::Iterator" in e.callee]
        if filt is not None and maxes and all(filt in mir.operand_sources(b, m.args[0])[0] for m in maxes):
            res.holds(rid, b.id, f"boundary filter at {filt.loc} feeds the selection at {maxes[0].loc}", where=filt.loc)
            continue
        # loop form: every write of a candidate (a local that flows to the return value) is behind the true edge of the boundary test
        tests = [x for x in b.calls() if x.method == "target_matches_prefix"]
        edges = []
        for blk in range(len(b.blocks)):
            if b.is_cleanup(blk) or b.term(blk)["k"] != "switch":
                continue
            ss = b.switch_source(blk)
            if ss and ss.get("kind") == "call" and ss["event"] in tests:
                edges += b.edges_by_label(blk).get("false" if ss.get("neg") else "true", [])
        ret_locals = set()
        for x in b.events:
            if x.kind == "assign" and x.data["p"][0] == 0:
                rv = x.data["r"]
                for o in [rv[k] for k in ("o", "a", "b") if isinstance(rv.get(k), dict)] + list(rv.get("ops", []) or []):
                    evs, _, _ = mir.operand_sources(b, o)
                    ret_locals |= {(y.data["p"][0] if y.kind == "assign" else y.data["d"][0]) for y in evs}
            elif x.kind == "call" and x.data["d"][0] == 0:
                for a in x.args:
                    evs, _, _ = mir.operand_sources(b, a)
                    ret_locals |= {(y.data["p"][0] if y.kind == "assign" else y.data["d"][0]) for y in evs}
        cand = [x for x in b.events if x.kind == "assign" and x.data["p"][0] in ret_locals and b.locals[x.data["p"][0]].get("name") and x.data["r"]["k"] == "agg"
                and x.data["r"].get("variant") == "Some"]
        if edges and cand and all(b.edges_dominate(edges, c.pos) for c in cand):
            res.holds(rid, b.id, "loop form: every candidate update is behind the boundary test", where=cand[0].loc)
        elif filt is None and not edges:
            res.violated(rid, b.id, "no rule is tested with target_matches_prefix before the longest one is selected: the boundary test (if any) runs on the already selected "
                         "candidate, so a longer logger name that is only a textual prefix of the target shadows the real ancestor", where=f"{b.file}:{b.line}")
        else:
            res.violated(rid, b.id, "a candidate can be selected without having passed the `::`-boundary test (the test is not upstream of the selection on every path)",
                         where=f"{b.file}:{b.line}")


def run(P, ctx):
    res = Result("C19")
    res.extra["explanation"] = "Delivery-path, overflow-policy and shutdown-order shapes of fibre_logging's dispatch and writer code."
    clause1(P, res)
    clause2(P, res)
    clause4(P, res)
    clause5(P, res)
    # clause3 (shutdown order) is NOT armed: on the pinned tree shutdown raises the stop flag before it closes the
    # channels and the writer's final drain stops at Empty, but the window in which a blocking send is accepted
    # and never written could not be demonstrated against the real code (it needs the writer to read the flag in
    # the few instructions between the two statements of shutdown_impl). Per the false-alarm policy an alarm
    # that cannot be shown to break the property is withdrawn; the observation is recorded as a note only.
    probe = Result("C19")
    clause3(P, probe)
    for i in probe.instances:
        res.notes.append(f"advisory (not a verdict): C19-3 shutdown-order shape {i.status}: {i.detail[:300]}")
    return res
