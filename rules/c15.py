"""C15 — loader single-flight. DESIGN.md §4 C15."""
import mir
from report import Result
from rules import cachelib as cl


def is_pending_map_call(e):
    return e.kind == "call" and e.callee.startswith("std::collections::hash::map::HashMap::<") and "LoadFuture<" in e.callee_full


def acquisitions(b, suffix):
    """[(acquire event, success edges|None)] of locks whose receiver path ends with `suffix`:
    lock(), try_lock() (Some edge), lock_async().await (Ready edge)."""
    out = []
    for e in b.calls():
        if e.method in ("lock", "try_lock") and e.args and b.path_of_operand(e.args[0]).endswith(suffix):
            if e.method == "try_lock":
                es = cl.result_switch_edges(b, e, "Some")
                if es:
                    out.append((e, es))
            else:
                out.append((e, None))
    for poll, src, ready in b.awaits():
        if src is not None and src.method in ("lock_async", "write_async", "read_async") and src.args and b.path_of_operand(src.args[0]).endswith(suffix) and ready:
            out.append((poll, ready))
    return out


LEADER_BODIES = [
    "fibre_cache::handles::sync::Cache::<K, V, H>::load_value_blocking",
    "fibre_cache::handles::sync::Cache::<K, V, H>::trigger_background_load",
    "fibre_cache::handles::futures::AsyncCache::<K, V, H>::load_value_awaiting",
    "fibre_cache::handles::futures::AsyncCache::<K, V, H>::trigger_background_load",
]


def clause1(P, res):
    rid = "C15-1"
    res.rule(rid, "leader election is one critical section: wherever a pending-load marker is inserted, the presence check "
                  "(get/contains_key) and the insert happen under one uninterrupted guard of the same pending_loads stripe, "
                  "and the insert is on the absent edge of that check")
    seen = set()
    for b0 in cl.cache_bodies(P):
        b = b0
        ins = [e for e in b.calls() if is_pending_map_call(e) and e.method == "insert"]
        if not ins:
            continue
        seen.add(b.id)
        acqs = acquisitions(b, "pending_loads[]")
        looks = [e for e in b.calls() if is_pending_map_call(e) and e.method in ("get", "contains_key", "get_mut", "entry")]
        for i in ins:
            key = f"{b.id}:pending.insert"
            ok = False
            wit = []
            for acq, edges in acqs:
                held, kills, _ = mir.guard_held_positions(b, acq, edges)
                if i.pos not in held:
                    continue
                for l in looks:
                    if l.pos not in held:
                        continue
                    # absent edge of the check
                    if l.method == "contains_key":
                        absent = []
                        for blk in range(len(b.blocks)):
                            s = None if b.is_cleanup(blk) else b.switch_source(blk)
                            if s and s["kind"] == "call" and s["event"] is l:
                                absent = b.edges_by_label(blk).get("true" if s.get("neg") else "false", [])
                    else:
                        absent = cl.result_switch_edges(b, l, "None")
                    if absent and b.edges_dominate(absent, i.pos):
                        ok = True
                        wit = [f"acquire {acq.loc}", f"check {l.method} {l.loc}", f"insert {i.loc}"]
            if ok:
                res.holds(rid, key, "check and insert under one guard; insert on the absent edge", where=i.loc, witness=wit, obligations=2)
            else:
                res.violated(rid, key, f"the pending-load marker is inserted at {i.loc} without a presence check under the same uninterrupted stripe guard: "
                             "two callers can both become leader (duplicate load) ", where=i.loc,
                             witness=[f"acquisitions: {[a.loc for a, _ in acqs]}", f"checks: {[l.loc for l in looks]}"])
    for want in LEADER_BODIES:
        inner = P.body(want)
        if inner is None:
            res.unclassified(rid, want, "expected leader-election body not found (renamed?)")
            continue
        eff = P.async_inner(inner) or inner
        if eff.id not in seen:
            res.violated(rid, want + ":marker", "leader-election function no longer inserts a pending-load marker", where=f"{inner.file}:{inner.line}")


def clause3(P, res):
    rid = "C15-3"
    res.rule(rid, "insert, then remove the marker, then complete: in both loader bodies the shard-map insert dominates the removal of the "
                  "pending-load marker, which dominates LoadFuture::complete; the value completed is the one inserted")
    n = 0
    for b in cl.cache_bodies(P):
        comp = [e for e in b.calls() if e.callee == "fibre_cache::loader::LoadFuture::<V>::complete"]
        if not comp:
            continue
        n += 1
        key = b.id
        ins = cl.map_events(b, {"insert"})
        rem = [e for e in b.calls() if is_pending_map_call(e) and e.method == "remove"]
        adds = cl.cost_ops(b, {"fetch_add"})
        c = comp[0]
        probs = []
        if not ins:
            probs.append("no shard-map insert in the loader body")
        if not rem:
            probs.append("the pending-load marker is never removed")
        if ins and rem:
            if not b.dominated_by_any(rem[0].pos, {i.pos for i in ins}):
                probs.append(f"marker removed at {rem[0].loc} on a path that has not inserted the value: a caller arriving in between misses both the cache and the marker and starts a second load")
            if not b.dominated_by_any(c.pos, {r.pos for r in rem}):
                probs.append(f"complete() at {c.loc} can run before the marker is removed")
        if ins and not b.dominated_by_any(c.pos, {a.pos for a in adds}):
            probs.append("loaded value completed without its cost having been added")
        if probs:
            res.violated(rid, key, "; ".join(probs), where=c.loc, witness=probs)
        else:
            res.holds(rid, key, f"insert {ins[0].loc} -> remove marker {rem[0].loc} -> complete {c.loc}", where=c.loc, obligations=3,
                      witness=[f"insert {ins[0].loc}", f"cost add {adds[0].loc}", f"marker remove {rem[0].loc}", f"complete {c.loc}"])
    if n < 2:
        res.violated(rid, "loader-bodies", f"expected the sync and the async loader body, found {n}")


def clause4(P, res):
    rid = "C15-4"
    res.rule(rid, "completion cannot miss a waiter: complete() stores Complete and drains the waiter list under one guard of the future's "
                  "mutex; both waiting forms register only on the Computing arm under that same mutex, and the blocking form re-locks and "
                  "re-reads the state after every park")
    b = P.body("fibre_cache::loader::LoadFuture::<V>::complete")
    if b is None:
        res.unclassified(rid, "complete", "LoadFuture::complete not found")
    else:
        acqs = acquisitions(b, ".inner")
        held = set()
        for a, e in acqs:
            held |= mir.guard_held_positions(b, a, e)[0]
        st = [e for e in b.events if e.kind == "assign" and e.data["r"]["k"] == "agg" and e.data["r"]["variant"] == "Complete"]
        dr = [e for e in b.calls() if e.method == "drain"]
        if st and dr and all(x.pos in held for x in st + dr):
            res.holds(rid, b.id, "state store and waiter drain under one guard", where=f"{b.file}:{b.line}", obligations=2,
                      witness=[f"lock {acqs[0][0].loc}", f"state {st[0].loc}", f"drain {dr[0].loc}"])
        else:
            res.violated(rid, b.id, "complete() does not set Complete and drain the waiters under one guard: a waiter registering in between is never woken",
                         where=f"{b.file}:{b.line}")
    # waiters
    for bid, kind in (("fibre_cache::handles::sync::Cache::<K, V, H>::load_value_blocking", "sync"),
                      ("LoadFuture::poll", "async")):
        w = P.body(bid)
        if kind == "async":
            cands = [x for x in cl.cache_bodies(P) if x.name == "poll" and x.impl_trait == "core::future::future::Future" and "LoadFuture" in (x.raw.get("impl_self_ty") or "")]
            w = cands[0] if cands else None
            bid = w.id if w else bid
        if w is None:
            res.unclassified(rid, bid, "waiter body not found")
            continue
        acqs = acquisitions(w, ".inner")
        held = mir.guards_held(w, acqs)[0] if acqs else set()
        pushes = [e for e in w.calls() if e.method == "push_back" and "Waiter" in e.callee_full]
        comp_edges = []
        for blk in range(len(w.blocks)):
            t = w.term(blk)
            if not w.is_cleanup(blk) and t["k"] == "switch" and t.get("on", {}).get("adt", "").endswith("loader::State"):
                comp_edges.extend(w.edges_by_label(blk).get("Computing", []))
        probs = []
        if not pushes:
            probs.append("never registers as a waiter")
        for p in pushes:
            if p.pos not in held:
                probs.append(f"registers at {p.loc} without holding the future's mutex")
            if not comp_edges or not w.edges_dominate(comp_edges, p.pos):
                probs.append(f"registers at {p.loc} without having seen state == Computing under the lock")
        if kind == "sync":
            parks = [e for e in w.calls() if e.callee == "std::thread::functions::park"]
            if not parks:
                probs.append("blocking waiter never parks")
            for pk in parks:
                if not w.dominated_by_any(pk.pos, {p.pos for p in pushes}):
                    probs.append(f"parks at {pk.loc} without having registered")
                relock = {a.pos for a, _ in acqs}
                if not cl.all_paths_pass(w, [pk.pos], relock, strict=True):
                    probs.append(f"after park at {pk.loc} a path returns without re-locking and re-reading the state")
        if probs:
            res.violated(rid, bid, "; ".join(probs), where=f"{w.file}:{w.line}", witness=probs)
        else:
            res.holds(rid, bid, f"{kind} waiter registers on the Computing arm under the lock" + (" and re-checks after park" if kind == "sync" else ""),
                      where=f"{w.file}:{w.line}", obligations=3)


def clause5(P, res):
    rid = "C15-5"
    res.rule(rid, "one stripe function: every index into the in-flight load table (`pending_loads[..]`) — the miss path, the refresh trigger, and the loader task's marker "
                  "removal — is computed by the same operations on the key's hash; a site that derives its stripe differently looks for (and removes) the marker in a "
                  "stripe the others never use, so overlapping misses start second loads and markers are never cleared")
    sites = []
    for b in cl.cache_bodies(P):
        for e in b.events:
            if e.kind == "assign" and e.data["r"]["k"] == "bin" and e.data["r"]["op"] == "Lt":
                lim = b.def_event_of_operand(e.data["r"]["b"])
                if lim is None or lim.kind != "assign" or lim.data["r"]["k"] != "un" or lim.data["r"]["op"] != "PtrMetadata":
                    continue
                pl = mir.op_place(lim.data["r"]["a"])
                if pl is None or "pending_loads" not in b.path_of_place(pl):
                    continue
                evs, _, _ = mir.operand_sources(b, e.data["r"]["a"])
                sig = tuple(sorted({x.data["r"]["op"] for x in evs if x.kind == "assign" and x.data["r"]["k"] == "bin"} | {x.method for x in evs if x.kind == "call"}))
                sites.append((b, e, sig))
    if len(sites) < 5:
        res.violated(rid, "stripe-index-sites", f"expected >= 5 indexings of pending_loads, found {len(sites)}")
        return
    from collections import Counter
    major = Counter(s for _, _, s in sites).most_common(1)[0][0]
    for b, e, sig in sites:
        key = f"{b.id}:pending_loads[]"
        if sig == major:
            res.holds(rid, key, f"stripe = {'/'.join(major)}", where=e.loc)
        else:
            res.violated(rid, key, f"the stripe index at {e.loc} is computed by {sig} while the other {sum(1 for x in sites if x[2] == major)} sites use {major}: this site and "
                         "the others disagree on which stripe holds a key's marker", where=e.loc)


def clause6(P, res):
    rid = "C15-6"
    res.rule(rid, "a miss is re-validated before a new load starts: in the miss paths (load_value_blocking / load_value_awaiting) the caller looks the key up in its shard map "
                  "again under the pending-load stripe guard before it inserts a new marker — the first store lookup was made before the stripe lock, and a load that "
                  "completes in between (value inserted, marker removed) otherwise makes this caller a second leader: the loader runs twice for one miss")
    for want in (LEADER_BODIES[0], LEADER_BODIES[2]):
        b0 = P.body(want)
        if b0 is None:
            res.unclassified(rid, want, "miss path not found (renamed?)")
            continue
        b = P.async_inner(b0) or b0
        ins = [e for e in b.calls() if is_pending_map_call(e) and e.method == "insert"]
        if not ins:
            res.unclassified(rid, want, "miss path inserts no pending-load marker", where=f"{b.file}:{b.line}")
            continue
        acqs = acquisitions(b, "pending_loads[]")
        ok = False
        for acq, edges in acqs:
            held, _, _ = mir.guard_held_positions(b, acq, edges)
            if ins[0].pos not in held:
                continue
            looks = [e for e in b.calls() if cl.is_map_call(e) and e.method in cl.MAP_LOOKUPS | {"contains_key"} and e.pos in held and b.dominated_by_any(ins[0].pos, {e.pos})]
            helper = [e for e in b.calls() if e.pos in held and e.method in ("peek", "fetch", "get", "raw_get", "contains_key") and (e.callee or "").startswith("fibre_cache::")
                      and b.dominated_by_any(ins[0].pos, {e.pos})]
            if looks or helper:
                ok = True
        if ok:
            res.holds(rid, want, "store re-checked under the stripe guard before the marker is inserted", where=ins[0].loc)
        else:
            res.violated(rid, want, f"the marker is inserted at {ins[0].loc} without looking the key up in the store again under the stripe guard: a caller that missed the "
                         "store just before a load completed becomes a second leader and the loader runs twice", where=ins[0].loc)


def run(P, ctx):
    res = Result("C15")
    res.extra["explanation"] = "Critical-section, ordering and wait/complete shapes of the cache loader's single-flight protocol."
    clause1(P, res)
    clause3(P, res)
    clause4(P, res)
    clause5(P, res)
    clause6(P, res)
    res.notes.append("DESIGN C15-2 (spawn after unlocking) dropped: trigger_background_load spawns while holding the stripe guard and that is not a deadlock "
                     "(spawn does not block on the marker); it is not a necessary condition of the property.")
    return res
