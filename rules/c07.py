"""C07 — broadcast spmc. DESIGN.md §4 C07."""
import re

import mir
from report import Result
from rules import common, orderings, pubsub

SENDERS = ("fibre::spmc::ring_buffer::BoundedSyncSender", "fibre::spmc::ring_buffer::BoundedAsyncSender")
RECEIVERS = ("fibre::spmc::ring_buffer::BoundedSyncReceiver", "fibre::spmc::ring_buffer::BoundedAsyncReceiver")
OBS = {"is_closed", "capacity", "len", "is_empty", "is_full", "sender_count", "receiver_count", "close", "fmt", "drop", "clone"}


def clause1(P, res):
    rid = "C07-1"
    res.rule(rid, "single producer is enforced by the type system: the spmc sender handles are not Clone and are either !Sync or expose their "
                  "send operations only through &mut self (the ring's producer side — head, slot writes, previous-lap drops — is unsynchronised)")
    for adt in SENDERS:
        a = P.adts.get(adt)
        key = adt
        if a is None:
            res.unclassified(rid, key, "sender type not found")
            continue
        if P.has_impl(adt, "core::clone::Clone"):
            res.violated(rid, key, "spmc sender is Clone: two producers can write the same slot")
            continue
        shared_ops = []
        for m in P.methods_of(adt, inherent_only=True):
            if m.vis != "pub" or m.name in OBS or m.name.startswith("to_"):
                continue
            t1 = m.locals[1].get("ty", "") if m.argc >= 1 else ""
            if t1.startswith("&") and not t1.startswith("&mut"):
                shared_ops.append(m.name)
        if not a.get("sync_u64"):
            res.holds(rid, key, "not Clone and !Sync", where=f"{a['file']}:{a['line']}")
        elif not shared_ops:
            res.holds(rid, key, "not Clone; Sync but every send form takes &mut self", where=f"{a['file']}:{a['line']}")
        else:
            res.violated(rid, key, f"{adt.rsplit('::', 1)[-1]} is (auto-)Sync and {sorted(shared_ops)} take &self: two threads holding `&sender` can produce concurrently "
                         "from safe code — both read the same head, write the same slot and one value is lost or torn", where=f"{a['file']}:{a['line']}")


def clause2(P, res):
    rid = "C07-2"
    res.rule(rid, "publish order and strength on the broadcast ring: payload write -> sequence store (Release) -> head store (Release) -> waker drain on the "
                  "producer side; sequence/head Acquire load before the clone-out and cursor store (Release) after it on the consumer side; every "
                  "site on a synchronisation field of the spmc module is Release (writes) / Acquire (reads) except counted, reasoned exemptions")
    nW, nR = pubsub.check(P, res, rid, lambda b: orderings.module_group(b) == "spmc")
    if nW < 2 or nR < 2:
        res.violated(rid, "payload-sites", f"expected >= 2 payload write and >= 2 payload read sites in spmc, found {nW}/{nR}")
    verdicts, _ = orderings.evaluate(P, lambda g: g == "spmc")
    n = 0
    for grp, fld, b, e, status, detail, key in verdicts:
        n += 1
        k = f"order:{key}"
        if status == "holds":
            res.holds(rid, k, detail, where=e.loc)
        elif status == "exempt":
            res.holds(rid, k, "exempt: " + detail, where=e.loc, nontrivial=False)
        else:
            res.violated(rid, k, detail, where=e.loc)
    if n < 50:
        res.violated(rid, "sync-field-sites", f"expected >= 50 sites on spmc synchronisation fields, found {n}")
    # explicit order rows: sequence store dominates head store; clone-out dominates cursor store; cursor store dominates wake_producer
    for bid, first, second, why in (
        ("fibre::spmc::ring_buffer::SpmcShared::<T>::try_send_internal", ("store", r"\.sequence$"), ("store", r"^self\.head$"), "slot sequence must be published before head"),
        ("fibre::spmc::ring_buffer::SpmcShared::<T>::write_batch_unchecked", ("store", r"\.sequence$"), ("store", r"^self\.head$"), "slot sequences must be published before head"),
        ("fibre::spmc::ring_buffer::try_recv_internal", ("assume_init_ref", None), ("store", r"^consumer_tail_idx$"), "value must be cloned out before the cursor releases the slot"),
        ("fibre::spmc::ring_buffer::try_recv_internal", ("store", r"^consumer_tail_idx$"), ("wake_producer", None), "cursor must advance before the producer is woken"),
        ("fibre::spmc::ring_buffer::try_recv_batch_internal", ("store", r"^consumer_tail_idx$"), ("wake_producer", None), "cursor must advance before the producer is woken"),
    ):
        b = P.body(bid)
        key = f"order-row:{bid}:{first[0]}->{second[0]}"
        if b is None:
            res.unclassified(rid, key, "function not found")
            continue

        def find(spec):
            meth, prx = spec
            return [e for e in b.calls() if e.method == meth and (prx is None or (e.args and re.search(prx, b.path_of_operand(e.args[0]))))]
        A, B = find(first), find(second)
        if not A or not B:
            res.unclassified(rid, key, f"events not found ({len(A)}/{len(B)})", where=f"{b.file}:{b.line}")
        elif bid.endswith("write_batch_unchecked") and not any(a.pos in b.pos_reach_set(x.pos) for x in B for a in A):
            res.holds(rid, key, why + " (stores happen in a loop over the written slots; none follows the head store)", where=B[0].loc)
        elif all(b.dominated_by_any(x.pos, {a.pos for a in A}) for x in B):
            res.holds(rid, key, why, where=B[0].loc, witness=[f"{first[0]} {A[0].loc}", f"{second[0]} {B[0].loc}"])
        else:
            res.violated(rid, key, f"order broken: {why}", where=B[0].loc)


def clause3(P, res):
    rid = "C07-3"
    res.rule(rid, "a leaving receiver releases backpressure: Drop and close of both receiver types reach the removal of their cursor from the tails list "
                  "under tails_mutex followed by wake_producer; Clone registers the new cursor under the same mutex")
    for adt in RECEIVERS:
        for nm, body in (("drop", common.drop_body(P, adt)), ("clone", common.trait_method_body(P, adt, "core::clone::Clone", "clone"))):
            key = f"{adt}::{nm}"
            if body is None:
                res.violated(rid, key, f"receiver has no {nm} body")
                continue
            # find the body (within 3 calls) that modifies the tails list
            ids = [body.id]
            seen = set()
            found = None
            while ids and not found:
                cur = P.body(ids.pop(0))
                if cur is None or cur.id in seen:
                    continue
                seen.add(cur.id)
                mods = [e for e in cur.calls() if e.method == "modify" and e.args and cur.path_of_operand(e.args[0]).endswith("tails_writer")]
                if mods:
                    found = (cur, mods)
                    break
                ids.extend(c for c in P.callees_of(cur, include_nested=False) if c.startswith("fibre::spmc"))
            if not found:
                res.violated(rid, key, f"{nm} never updates the consumer-cursor list: " + ("the producer keeps waiting for a receiver that is gone" if nm == "drop" else "the clone's cursor is invisible to the producer, which overwrites values it has not read"),
                             where=f"{body.file}:{body.line}")
                continue
            cur, mods = found
            locks = [e for e in cur.calls() if e.method == "lock" and e.args and cur.path_of_operand(e.args[0]).endswith("tails_mutex")]
            held = mir.guards_held(cur, [(l, None) for l in locks])[0] if locks else set()
            probs = []
            if not all(m.pos in held for m in mods):
                probs.append("cursor list modified without tails_mutex held")
            if nm == "drop":
                wk = [e for e in cur.calls() if e.method == "wake_producer"]
                from rules import cachelib
                if not wk or not cachelib.all_paths_pass(cur, [mods[0].pos], [w.pos for w in wk], strict=True):
                    probs.append("wake_producer does not follow the removal on every path (a parked sender stays blocked by the departed receiver)")
            if probs:
                res.violated(rid, key, "; ".join(probs), where=mods[0].loc)
            else:
                res.holds(rid, key, f"cursor list updated under tails_mutex in {cur.id.rsplit('::', 1)[-1]}" + (" then wake_producer" if nm == "drop" else ""), where=mods[0].loc, obligations=2)


def run(P, ctx):
    res = Result("C07")
    res.extra["explanation"] = "Type-level single-producer enforcement, publication order/strength and cursor-list maintenance of the broadcast spmc ring."
    clause1(P, res)
    clause2(P, res)
    clause3(P, res)
    from rules import leftright
    leftright.check(P, res, "C07-4", r"^fibre::<?spmc::ring_buffer", 2)
    leftright.check_relative(P, res, "C07-5", r"^fibre::<?spmc::ring_buffer", 2)
    # per-slot waker lists: a publish that writes several slots drains the waker list of each of them
    rid = "C07-7"
    res.rule(rid, "every slot a publish writes has its waker list drained: in the broadcast ring a single-value receiver parks on the slot it is about to read (the per-slot "
                  "`wakers` list), so a publish function that writes payload slots in a loop also takes each written slot's `wakers` lock and drains it in a loop — draining "
                  "only the first written slot leaves a receiver that consumed value h mid-batch and parked on slot h+1 asleep although its value is published")
    k7 = 0
    for b in P.bodies.values():
        if not b.id.startswith("fibre::spmc::ring_buffer::SpmcShared::<T>::") or "::tests::" in b.id:
            continue
        writes = [e for e in b.calls() if e.method == "write" and "MaybeUninit" in e.callee and e.args and ".value" in b.path_of_operand(e.args[0])]
        if not writes:
            continue
        k7 += 1
        looped_write = any(b.pos_reaches(w.pos, {w.pos}) for w in writes)
        locks = [e for e in b.calls() if e.method == "lock" and e.args and b.path_of_operand(e.args[0]).endswith(".wakers")]
        drains = [e for e in b.calls() if e.method in ("drain", "take", "append", "clear") and any(b.producer_call(a) in locks or (b.origin_call(a) in locks) for a in e.args[:1])]
        if not locks:
            res.violated(rid, b.id, f"{b.name} writes payload slots but never takes a slot's `wakers` lock: parked single-value receivers are not woken by this publish",
                         where=writes[0].loc)
        elif looped_write and not any(b.pos_reaches(l.pos, {l.pos}) for l in locks):
            res.violated(rid, b.id, f"{b.name} writes several slots in a loop but drains a single slot's waker list ({locks[0].loc}): a receiver parked on a later slot of the "
                         "batch sleeps on a published value", where=locks[0].loc)
        else:
            res.holds(rid, b.id, "one waker-list drain per written slot" if looped_write else "single slot written, its waker list drained", where=locks[0].loc)
    if k7 < 2:
        res.violated(rid, "publish-bodies", f"expected the single and the batch publish function of the spmc ring, found {k7}")
    # every receiver gets every value before it is told Disconnected: the spmc instances of the drain-before-Disconnected rule (C04-5), judged for the broadcast ring
    from rules import c04
    sub = Result("C07")
    c04.clause5(P, sub)
    res.rule("C07-6", "a receiver of the broadcast ring is told Disconnected only after its view is drained: wherever a receive form of spmc::ring_buffer decides Disconnected "
                      "itself, no path leads from the read of `producer_dropped` to the decision without another look at `head`/the slot (the producer publishes, then "
                      "drops: `head` is final only once the flag was seen) — the spmc instances of C04-5")
    k = 0
    for i in sub.instances:
        if "spmc::ring_buffer" in i.key:
            k += 1
            res.add("C07-6", i.key.split(":", 2)[2], i.status, i.detail, i.witness, i.nontrivial, i.obligations, i.where)
    if k < 4:
        res.violated("C07-6", "spmc-disconnect-sites", f"expected >= 4 Disconnected decisions in the spmc receive forms, found {k}")
    return res
