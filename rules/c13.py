"""C13 — capacity and cost accounting. DESIGN.md §4 C13."""
import mir
from report import Result
from rules import cachelib as cl

# Insert sites whose `Option<old>` result is not inspected, with the reason that is accepted.
INSERT_NO_OLD = {
    "fibre_cache::entry_api::VacantEntry::<'a, K, V, H>::insert":
        "vacancy was established by Cache::entry under the same shard write guard that this insert uses (C11-1)",
    "fibre_cache::entry_api_async::AsyncVacantEntry::<'a, K, V, H>::insert":
        "vacancy was established by AsyncCache::entry under the same shard write guard (C11-1)",
    "fibre_cache::builder::CacheBuilder::<K, V, H>::build_shared_core":
        "restore fills freshly created shard maps; keys of a snapshot are unique per construction",
}
# Bodies in which the inserted cost is accounted by a single store of the accumulated total.
INSERT_BY_TOTAL_STORE = {
    "fibre_cache::builder::CacheBuilder::<K, V, H>::build_shared_core":
        "restore: current_cost.store(total) after the loop, before the cache is shared",
}


OPTION_MAPPERS = {"map_or", "map", "map_or_else", "and_then"}


def _cost_sub_qualifies(body, sub, removal, P=None):
    """fetch_sub amount is data-derived from cost() of the entry that `removal` returned:
    directly (`entry.cost()`), or through `old.map_or(0, |e| e.cost())`."""
    if len(sub.args) < 2:
        return False
    for cc in mir.derives_from_call(body, sub.args[1], cl.is_cost_call):
        evs, _, _ = mir.operand_sources(body, cc.args[0])
        if removal in evs:
            return True
    if P is not None:
        for mc in mir.derives_from_call(body, sub.args[1], lambda e: e.method in OPTION_MAPPERS and e.callee.startswith("core::option::Option::<T>::")):
            evs, _, _ = mir.operand_sources(body, mc.args[0])
            if removal not in evs:
                continue
            for a in mc.args[1:]:
                pth = body.path_of_operand(a)
                cb = P.body(pth[len("closure:"):]) if pth.startswith("closure:") else None
                if cb is not None and any(cl.is_cost_call(x) for x in cb.calls()):
                    return True
    return False


def clause1(P, res):
    rid = "C13-1"
    res.rule(rid, "whoever takes an entry out of a shard map subtracts that entry's own cost: after every map removal "
                  "(remove/remove_entry success, insert returning an old entry, retain returning false, clear) every path to "
                  "the function's exit passes a current_cost subtraction whose amount is data-derived from cost() of the "
                  "removed entry (store(0) for clear); every map insertion is accounted by a current_cost addition")
    for b in cl.cache_bodies(P):
        for r in cl.map_events(b, {"remove", "remove_entry"}):
            key = f"{b.id}:{r.method}"
            where = r.loc
            edges = cl.result_switch_edges(b, r, "Some")
            if not edges:
                res.violated(rid, key, "entry removed from the shard map but the result is never inspected: its cost cannot be subtracted", where=where)
                continue
            subs = [s for s in cl.cost_ops(b, {"fetch_sub"}) if _cost_sub_qualifies(b, s, r)]
            starts = [(t, 0) for _, t in edges]
            if subs and cl.all_paths_pass(b, starts, [s.pos for s in subs]):
                res.holds(rid, key, f"subtracts cost() of the removed entry at {subs[0].loc}", where=where,
                          witness=[f"removal {r.loc}", f"Some edge -> bb{edges[0][1]}"] + [f"fetch_sub {s.loc}" for s in subs])
            else:
                other = cl.cost_ops(b, {"fetch_sub"})
                if other and not subs:
                    amt = b.path_of_operand(other[0].args[1]) if len(other[0].args) > 1 else "?"
                    res.violated(rid, key, f"the amount subtracted from current_cost at {other[0].loc} (`{amt}`) is not derived from the cost of "
                                 f"the entry actually removed at {r.loc}: when the removal finds nothing (or fewer entries than expected) the counter drifts",
                                 where=where, witness=[f"removal {r.loc}", f"fetch_sub {other[0].loc} amount <- {amt}"])
                else:
                    res.violated(rid, key, f"a path from the successful removal at {r.loc} reaches the exit without subtracting the removed entry's cost",
                                 where=where, witness=[f"removal {r.loc}"] + [f"fetch_sub {s.loc}" for s in subs])
        for r in cl.map_events(b, {"insert"}):
            key = f"{b.id}:insert"
            where = r.loc
            edges = cl.result_switch_edges(b, r, "Some")
            ok = True
            wit = [f"insert {r.loc}"]
            mapped = [s for s in cl.cost_ops(b, {"fetch_sub"}) if _cost_sub_qualifies(b, s, r, P)]
            if not edges and mapped and cl.all_paths_pass(b, [r.pos], [s.pos for s in mapped], strict=True):
                wit.append(f"replaced entry's cost (0 when none) subtracted at {mapped[0].loc}")
            elif not edges:
                if b.id in INSERT_NO_OLD:
                    wit.append("old entry impossible: " + INSERT_NO_OLD[b.id])
                else:
                    res.violated(rid, key + ":old", "map insert may replace an entry but the returned old entry is never inspected: its cost stays in current_cost",
                                 where=where)
                    ok = False
            else:
                subs = [s for s in cl.cost_ops(b, {"fetch_sub"}) if _cost_sub_qualifies(b, s, r)]
                starts = [(t, 0) for _, t in edges]
                if subs and cl.all_paths_pass(b, starts, [s.pos for s in subs]):
                    wit.append(f"replaced entry's cost subtracted at {subs[0].loc}")
                else:
                    res.violated(rid, key + ":old", f"insert at {r.loc} can replace an entry whose cost is not subtracted on every path", where=where)
                    ok = False
            adds = cl.cost_ops(b, {"fetch_add"})
            if b.id in INSERT_BY_TOTAL_STORE:
                adds = adds + [s for s in cl.cost_ops(b, {"store"}) if len(s.args) > 1 and mir.op_const(s.args[1]) is None]
            good = [a for a in adds if b.dominated_by_any(r.pos, {a.pos}) or cl.all_paths_pass(b, [r.pos], [a.pos], strict=True)]
            if good:
                wit.append(f"inserted cost added at {good[0].loc}")
            else:
                res.violated(rid, key + ":add", f"map insertion at {r.loc} is not accounted in current_cost on every path", where=where)
                ok = False
            if ok:
                res.holds(rid, key, "; ".join(wit[1:]), where=where, witness=wit, obligations=2)
        for r in cl.map_events(b, {"retain"}):
            key = f"{b.id}:retain"
            where = r.loc
            cpath = b.path_of_operand(r.args[1]) if len(r.args) > 1 else ""
            cb = P.body(cpath[len("closure:"):]) if cpath.startswith("closure:") else None
            if cb is None:
                res.unclassified(rid, key, "retain with a predicate the rule cannot resolve to a closure body", where=where)
                continue
            falses = [e for e in cb.events if e.kind == "assign" and e.data["p"] == [0, []] and e.data["r"]["k"] == "use"
                      and (mir.op_const(e.data["r"]["o"]) or {}).get("v") == 0]
            subs = []
            for s in cl.cost_ops(cb, {"fetch_sub"}):
                for cc in mir.derives_from_call(cb, s.args[1], cl.is_cost_call) if len(s.args) > 1 else []:
                    _, args, _ = mir.operand_sources(cb, cc.args[0])
                    if 3 in args:
                        subs.append(s)
            bad = [f for f in falses if not cb.dominated_by_any(f.pos, {s.pos for s in subs})]
            if falses and not bad:
                res.holds(rid, key, f"every `false` (remove) outcome of the predicate follows a subtraction of that entry's cost ({subs[0].loc})",
                          where=where, witness=[f"retain {r.loc}", f"closure {cb.id}"] + [f"fetch_sub {s.loc}" for s in subs], obligations=len(falses))
            elif not falses:
                res.unclassified(rid, key, "retain predicate with no constant-false outcome the rule can see", where=where)
            else:
                res.violated(rid, key, f"retain predicate removes an entry (returns false at {bad[0].loc}) without subtracting that entry's cost", where=where)
        for r in cl.map_events(b, {"clear", "drain"}):
            key = f"{b.id}:{r.method}"
            where = r.loc
            zero = [s for s in cl.cost_ops(b, {"store"}) if len(s.args) > 1 and (b.const_of_operand(s.args[1]) or {}).get("v") == 0]
            if zero and cl.all_paths_pass(b, [r.pos], [z.pos for z in zero], strict=True):
                res.holds(rid, key, f"clear is followed by current_cost.store(0) at {zero[0].loc}", where=where,
                          witness=[f"clear {r.loc}", f"store {zero[0].loc}"])
            else:
                res.violated(rid, key, f"shard map cleared at {r.loc} without resetting current_cost on every path", where=where)


def clause2(P, res):
    rid = "C13-2"
    res.rule(rid, "only map-mutating code writes the cost counter: every fetch_add/fetch_sub/store on current_cost is in a body "
                  "(or a closure of a body) that also inserts into or removes from a shard map")
    for b in cl.cache_bodies(P):
        ops = cl.cost_ops(b, {"fetch_add", "fetch_sub", "store", "swap"})
        if not ops:
            continue
        fam = [b]
        x = b
        while x is not None and x.parent:
            x = P.body(x.parent)
            if x is not None:
                fam.append(x)
        # also closures created by this body
        fam.extend(P.children(b.id))
        mut = [e for f in fam for e in cl.map_events(f, cl.MAP_REMOVALS | cl.MAP_INSERTS)]
        key = b.id
        if mut:
            res.holds(rid, key, f"{len(ops)} cost write(s) next to {len(mut)} map mutation(s)", where=ops[0].loc,
                      witness=[f"{o.method} {o.loc}" for o in ops[:6]], obligations=len(ops))
        else:
            res.violated(rid, key, f"current_cost is written at {ops[0].loc} by code that does not insert into or remove from a shard map", where=ops[0].loc,
                         witness=[f"{o.method} {o.loc}" for o in ops])


INSERT_NO_EVENT = {
    "fibre_cache::builder::CacheBuilder::<K, V, H>::build_shared_core":
        "snapshot restore: whether restored entries are announced to the policy is decided under C17-2 (restore is part of C17's statement, not of C13's histories)",
}


def clause3(P, res):
    rid = "C13-3"
    res.rule(rid, "every insertion is announced to the shard's eviction policy: each shard-map insert is followed on every path (or "
                  "preceded on every path) by a send of AccessEvent::Write on the shard's event buffer, or a direct on_admit")
    for b in cl.cache_bodies(P):
        for r in cl.map_events(b, {"insert"}):
            key = f"{b.id}:insert"
            sends = [e for e in b.calls() if cl.is_write_event_send(e) or e.method == "on_admit"]
            good = [s for s in sends if b.dominated_by_any(r.pos, {s.pos}) or cl.all_paths_pass(b, [r.pos], [s.pos], strict=True)]
            if good:
                res.holds(rid, key, f"Write event sent at {good[0].loc}", where=r.loc, witness=[f"insert {r.loc}", f"send {good[0].loc}"])
            elif b.id in INSERT_NO_EVENT:
                res.holds(rid, key, INSERT_NO_EVENT[b.id], where=r.loc, nontrivial=False)
            else:
                res.violated(rid, key, f"entries inserted at {r.loc} are never announced to the eviction policy (no AccessEvent::Write / on_admit on the path): "
                             "the policy does not track them, so they can never be chosen as victims and capacity cannot be enforced over them",
                             where=r.loc, witness=[f"insert {r.loc}"] + [f"send {s.loc} (not on every path)" for s in sends])


MAINT_FNS = {
    "fibre_cache::task::janitor::perform_shard_maintenance",
    "fibre_cache::task::janitor::Janitor::cleanup_ttl_for_shard",
    "fibre_cache::task::janitor::Janitor::cleanup_tti_for_shard",
    "fibre_cache::task::janitor::Janitor::cleanup_capacity_for_shard",
}


def maintenance_guards(b):
    """[(acquire event, success edges or None)] for lock()/try_lock()/lock_async().await on a `.maintenance_lock`."""
    out = []
    for poll, src, ready in b.awaits():
        if src is not None and src.method == "lock_async" and src.args and b.path_of_operand(src.args[0]).endswith("maintenance_lock") and ready:
            out.append((poll, ready))
    for e in b.calls():
        if e.method in ("lock", "try_lock") and e.args and b.path_of_operand(e.args[0]).endswith("maintenance_lock"):
            if e.method == "try_lock":
                out.append((e, cl.result_switch_edges(b, e, "Some")))
            else:
                out.append((e, None))
    return out


def clause4(P, res):
    rid = "C13-4"
    res.rule(rid, "maintenance discipline: every call of perform_shard_maintenance / cleanup_{ttl,tti,capacity}_for_shard and every "
                  "receive on a shard's event buffer happens while that shard's maintenance_lock guard is held; run_maintenance performs "
                  "drain, TTL, TTI and capacity passes")
    n = 0
    for b in cl.cache_bodies(P):
        sites = [e for e in b.calls() if e.callee_resolved in MAINT_FNS]
        if not sites:
            continue
        guards = maintenance_guards(b)
        held = set()
        for acq, edges in guards:
            if acq.method != "lock" and not edges:
                continue
            h, _, _ = mir.guard_held_positions(b, acq, edges)
            held |= h
        for s in sites:
            n += 1
            key = f"{b.id}->{s.callee_resolved.rsplit('::', 1)[-1]}"
            if s.pos in held:
                res.holds(rid, key, "called with the shard's maintenance_lock guard held", where=s.loc,
                          witness=[f"lock {g.loc} ({g.method})" for g, _ in guards] + [f"call {s.loc}"])
            else:
                res.violated(rid, key, f"maintenance routine called at {s.loc} without the shard's maintenance_lock guard provably held "
                             "(policy state and the event-buffer receiver are only safe under that lock)", where=s.loc,
                             witness=[f"lock {g.loc} ({g.method})" for g, _ in guards])
    # event buffer receives only inside perform_shard_maintenance (whose callers are checked above)
    for b in cl.cache_bodies(P):
        for e in b.calls():
            if e.method in ("try_recv", "recv", "recv_timeout") and e.args and b.path_of_operand(e.args[0]).endswith("event_buffer_rx"):
                key = f"{b.id}:event_buffer_rx"
                if b.id in MAINT_FNS:
                    res.holds(rid, key, "event buffer drained inside a maintenance routine (callers hold the lock)", where=e.loc)
                else:
                    res.violated(rid, key, f"shard event buffer received at {e.loc} outside the maintenance routines", where=e.loc)
    # run_maintenance completeness
    for bid in ("fibre_cache::handles::sync::Cache::<K, V, H>::run_maintenance", "fibre_cache::handles::futures::AsyncCache::<K, V, H>::run_maintenance"):
        b = P.body(bid)
        if b is None:
            continue
        b = P.async_inner(b) or b
        called = {e.callee_resolved for e in b.calls()}
        missing = sorted(MAINT_FNS - called)
        key = bid + ":passes"
        if missing:
            res.violated(rid, key, "run_maintenance omits " + ", ".join(m.rsplit("::", 1)[-1] for m in missing), where=f"{b.file}:{b.line}")
        else:
            res.holds(rid, key, "drain, TTL, TTI and capacity passes are all invoked", where=f"{b.file}:{b.line}", obligations=4)


def accumulator_local(b, op, depth=0):
    """the multi-def local an operand copies from (`total += x` style accumulators), or None"""
    p = mir.op_place(op)
    if p is None or p[1] or depth > 4:
        return None
    ds = b.defs.get(p[0], [])
    if len(ds) > 1:
        return p[0]
    if len(ds) == 1 and ds[0].kind == "assign" and ds[0].data["r"]["k"] == "use":
        return accumulator_local(b, ds[0].data["r"]["o"], depth + 1)
    return None


def clause5(P, res):
    rid = "C13-5"
    res.rule(rid, "what is added is what was inserted, and per-iteration totals start from zero: (a) every fetch_add on current_cost adds the very cost given to the entry "
                  "constructor of the same insertion (never a constant); (b) where a loop publishes an accumulated amount to current_cost, the accumulator is "
                  "re-initialised on every trip round the loop — a total hoisted out of the loop is subtracted again by every later iteration")
    n = 0
    for b in cl.cache_bodies(P):
        ctor_costs = {b.path_of_operand(e.args[1]) for e in b.calls() if (e.method or "").startswith("new") and "entry::CacheEntry" in (e.callee_full or e.callee) and len(e.args) > 1}
        for k, e in enumerate(cl.cost_ops(b, {"fetch_add", "fetch_sub"})):
            if len(e.args) < 2:
                continue
            amt = e.args[1]
            if e.method == "fetch_add":
                n += 1
                key = f"{b.id}:fetch_add#{k}"
                pth = b.path_of_operand(amt)
                if b.const_of_operand(amt) is not None:
                    res.violated(rid, key, f"current_cost grows by a constant at {e.loc} while the entry carries its own cost: every removal later subtracts the real cost and the "
                                 "gauge drifts (wraps below zero)", where=e.loc)
                elif ctor_costs and pth not in ctor_costs:
                    res.violated(rid, key, f"current_cost grows by `{pth}` at {e.loc} but the entry inserted here was built with cost `{sorted(ctor_costs)[0]}`", where=e.loc)
                else:
                    res.holds(rid, key, f"adds `{pth}`, the cost the entry was built with" if ctor_costs else f"adds `{pth}`", where=e.loc, nontrivial=bool(ctor_costs))
            acc = accumulator_local(b, amt)
            if acc is not None and e.pos in b.pos_reach_set(e.pos):
                n += 1
                key = f"{b.id}:{e.method}#{k}:accumulator"
                inits = [d.pos for d in b.defs.get(acc, []) if d.kind == "assign" and d.data["r"]["k"] == "use" and mir.op_const(d.data["r"]["o"]) is not None]
                if inits and e.pos not in b.pos_reach_set(e.pos, removed=frozenset(inits)):
                    res.holds(rid, key, f"`{b.local_name(acc)}` is reset on every iteration that publishes it", where=e.loc)
                else:
                    res.violated(rid, key, f"`{b.local_name(acc)}` is published to current_cost at {e.loc} inside a loop without being reset in between: amounts accumulated for "
                                 "earlier iterations are applied again", where=e.loc)
    if n < 10:
        res.violated(rid, "cost-additions", f"expected >= 12 cost additions / loop-published totals, found {n}")


def clause6(P, res):
    rid = "C13-6"
    res.rule(rid, "a wholesale reset of current_cost (store of the constant 0) happens while every shard is write-locked: the shard maps are cleared through a collection of "
                  "write guards (one per shard) that is still alive at the store — resetting the gauge after the shards were unlocked erases the cost of entries "
                  "inserted in between, and the capacity pass then stops early")
    n = 0
    for b in cl.cache_bodies(P):
        zero = [z for z in cl.cost_ops(b, {"store"}) if len(z.args) > 1 and (b.const_of_operand(z.args[1]) or {}).get("v") == 0]
        clears = cl.map_events(b, {"clear", "drain"})
        if not zero or not clears:
            continue
        for z in zero:
            n += 1
            key = f"{b.id}:store0"
            # the guard collection the clears go through
            colls = set()
            for r in clears:
                evs, _, _ = mir.operand_sources(b, r.args[0])
                for e in evs:
                    locs = []
                    if e.kind == "assign" and e.data["r"]["k"] in ("ref", "rawptr"):
                        locs.append(e.data["r"]["p"][0])
                    elif e.kind == "call":
                        locs += [mir.op_place(a)[0] for a in e.args if mir.op_place(a) is not None]
                    for l in locs:
                        ty = b.locals[l].get("ty", "")
                        if ty.startswith("alloc::vec::Vec<") and "WriteGuard<" in ty:
                            colls.add(l)
            if not colls:
                res.violated(rid, key, f"current_cost is reset to 0 at {z.loc} but the shard maps are cleared one guard at a time (no collection holding every shard's write "
                             "guard): an insert into an already cleared shard completes before the reset and its cost is erased", where=z.loc,
                             witness=[f"clear {r.loc}" for r in clears])
                continue
            bad = None
            for l in colls:
                for d in b.events:
                    if d.kind in ("drop", "dead") and ((d.kind == "drop" and d.data["p"][0] == l and d.data["p"][1] == []) or (d.kind == "dead" and d.data["dead"] == l)):
                        if z.pos in b.pos_reach_set(d.pos):
                            bad = d
                moved = [e for e in b.calls() if any("m" in a and a["m"][0] == l and a["m"][1] == [] for a in e.args)]
                for m in moved:
                    if z.pos in b.pos_reach_set(m.pos):
                        bad = m
            if bad is not None:
                res.violated(rid, key, f"current_cost is reset to 0 at {z.loc} after the write guards of the shards were released at {bad.loc}: entries inserted in between "
                             "stay resident but vanish from the gauge", where=z.loc)
            else:
                res.holds(rid, key, f"reset at {z.loc} while `{b.local_name(sorted(colls)[0])}` (all shard write guards) is alive", where=z.loc)
    if n < 2:
        res.unclassified(rid, "reset-sites", f"expected the two clear() bodies to reset the gauge, found {n}", where="rules/c13.py")


def run(P, ctx):
    res = Result("C13")
    res.extra["explanation"] = ("Cost accounting shapes on the MIR of fibre_cache: removal=>subtract-that-entry's-cost, insert=>add, "
                                "who-may-write the counter, insertion=>policy event, maintenance under the shard maintenance lock.")
    clause1(P, res)
    clause2(P, res)
    clause3(P, res)
    clause4(P, res)
    clause5(P, res)
    clause6(P, res)
    return res
