"""C11 — cache reads return the latest live value of their own key. DESIGN.md §4 C11."""
import collections
import re

import mir
from report import Result
from rules import c12, cachelib as cl, c15


def shard_write_acqs(b):
    out = []
    for e in b.calls():
        if e.method == "write" and "HybridRwLock" in e.callee and e.args and b.path_of_operand(e.args[0]).endswith(".map"):
            out.append((e, None))
    for poll, src, ready in b.awaits():
        if src is not None and src.method == "write_async" and src.args and b.path_of_operand(src.args[0]).endswith(".map") and ready:
            out.append((poll, ready))
    return out


def clause1(P, res):
    rid = "C11-1"
    res.rule(rid, "entry-guard continuity: Cache::entry / AsyncCache::entry acquire the shard write lock exactly once and move that very guard into the "
                  "returned Occupied/Vacant entry; VacantEntry::insert inserts through the carried guard and acquires no shard lock of its own (so "
                  "check-and-insert is one critical section and or_insert inserts at most once); try_compute_val mutates only through Arc::get_mut "
                  "on the entry and on the value while holding the shard write guard")
    for bid in ("fibre_cache::handles::sync::Cache::<K, V, H>::entry", "fibre_cache::handles::futures::AsyncCache::<K, V, H>::entry"):
        b0 = P.body(bid)
        if b0 is None:
            res.unclassified(rid, bid, "entry() not found")
            continue
        b = P.async_inner(b0) or b0
        acqs = shard_write_acqs(b)
        aggs = [e for e in b.events if e.kind == "assign" and e.data["r"]["k"] == "agg" and re.search(r"(Occupied|Vacant)Entry$", e.data["r"]["adt"])]
        key = bid
        where = f"{b.file}:{b.line}"
        if len(acqs) != 1:
            res.violated(rid, key, f"entry() acquires the shard write lock {len(acqs)} times (expected exactly once)", where=where)
            continue
        gl = mir.alias_locals(b, acqs[0][0].data["d"][0])
        bad = []
        for a in aggs:
            r = a.data["r"]
            if "shard_guard" not in r["fields"]:
                bad.append(f"{r['adt'].rsplit('::', 1)[-1]} has no shard_guard field")
                continue
            op = r["ops"][r["fields"].index("shard_guard")]
            p = mir.op_place(op)
            if p is None or p[0] not in gl:
                bad.append(f"{r['adt'].rsplit('::', 1)[-1]} built at {a.loc} does not receive the guard acquired at {acqs[0][0].loc}")
        chk = [e for e in b.calls() if cl.is_map_call(e) and e.method in ("contains_key", "get", "get_mut")]
        held = mir.guards_held(b, acqs)[0]
        if not chk or not all(c.pos in held for c in chk):
            bad.append("presence check not made under the write guard")
        if len(aggs) < 2:
            bad.append("does not build both Occupied and Vacant entries")
        # Vacant means absent: VacantEntry::insert ignores what the map insert returns (no cost subtraction, no timer cancel), which is only right for a key that is not there
        absent = []
        for blk in range(len(b.blocks)):
            s = None if b.is_cleanup(blk) else b.switch_source(blk)
            if s and s["kind"] == "call" and cl.is_map_call(s["event"]) and s["event"].method == "contains_key":
                absent += b.edges_by_label(blk).get("true" if s.get("neg") else "false", [])
        for g in [e for e in chk if e.method in ("get", "get_mut")]:
            absent += cl.result_switch_edges(b, g, "None")
        vbid = "fibre_cache::entry_api_async::AsyncVacantEntry::<'a, K, V, H>::insert" if "futures" in bid else "fibre_cache::entry_api::VacantEntry::<'a, K, V, H>::insert"
        vb = P.body(vbid)
        old_handled = vb is not None and all(cl.result_switch_edges(vb, i, "Some") or len(vb.readers_of_local(i.data["d"][0])) > 0 for i in cl.map_events(vb, {"insert"}))
        for a in aggs:
            if old_handled:
                break       # VacantEntry::insert looks at the replaced entry itself: presenting a present key as vacant is then safe
            if a.data["r"]["adt"].endswith("VacantEntry") and not (absent and b.edges_dominate(absent, a.pos)):
                bad.append(f"a Vacant entry is built at {a.loc} on a path where the key may be present in the map (VacantEntry::insert would replace it without subtracting its cost "
                           "or cancelling its timers)")
        if bad:
            res.violated(rid, key, "; ".join(bad), where=where)
        else:
            res.holds(rid, key, "one write acquisition; the same guard is moved into both entry kinds", where=where, obligations=3)
    for bid in ("fibre_cache::entry_api::VacantEntry::<'a, K, V, H>::insert", "fibre_cache::entry_api_async::AsyncVacantEntry::<'a, K, V, H>::insert"):
        b = P.body(bid)
        if b is None:
            res.unclassified(rid, bid, "VacantEntry::insert not found")
            continue
        ins = cl.map_events(b, {"insert"})
        locks = [e for e in b.calls() if e.method in ("write", "write_async", "read", "read_async") and "HybridRwLock" in e.callee]
        key = bid
        if locks:
            res.violated(rid, key, f"VacantEntry::insert acquires a shard lock itself at {locks[0].loc}: the vacancy check and the insert are no longer one critical section", where=locks[0].loc)
        elif ins and all("shard_guard" in b.path_of_operand(i.args[0]) for i in ins):
            res.holds(rid, key, "inserts through the carried guard", where=ins[0].loc)
        else:
            res.violated(rid, key, "map insert does not go through the entry's own guard", where=f"{b.file}:{b.line}")
    for bid in ("fibre_cache::handles::sync::Cache::<K, V, H>::try_compute_val", "fibre_cache::handles::futures::AsyncCache::<K, V, H>::try_compute_val"):
        b0 = P.body(bid)
        if b0 is None:
            res.unclassified(rid, bid, "try_compute_val not found")
            continue
        b = P.async_inner(b0) or b0
        acqs = shard_write_acqs(b)
        held = mir.guards_held(b, acqs)[0] if acqs else set()
        gm = [e for e in b.calls() if e.callee.startswith("alloc::sync::Arc::<T") and e.method == "get_mut"]
        user = [e for e in b.calls() if e.callee.startswith("core::ops::function::FnOnce::call_once") or e.callee.startswith("core::ops::function::FnMut::call_mut")]
        key = bid
        probs = []
        if len(gm) < 2:
            probs.append(f"only {len(gm)} Arc::get_mut uniqueness check(s) (entry and value both need one)")
        some_edges = [x for g in gm for x in cl.result_switch_edges(b, g, "Some")]
        for u in user:
            if u.pos not in held:
                probs.append(f"user closure runs at {u.loc} without the shard write guard")
            if not some_edges or not all(b.edges_dominate(cl.result_switch_edges(b, g, "Some"), u.pos) for g in gm):
                probs.append(f"user closure at {u.loc} can run although a reader still shares the entry/value Arc (lost update or data race)")
        if not user:
            probs.append("no call of the user closure found")
        if probs:
            res.violated(rid, key, "; ".join(probs), where=f"{b.file}:{b.line}")
        else:
            res.holds(rid, key, "closure runs under the write guard, behind Arc::get_mut == Some on entry and value", where=f"{b.file}:{b.line}", obligations=3)


ASYM_ROWS = {
    "multiget": ({"map.get", "map.get_key_value", "policy.on_hit", "policy.on_access", "cost()", "tti.refresh"},
                 "async multiget runs per-shard tasks over `shared` and records the access directly (update_last_accessed + policy.on_access) where the sync form goes through on_hit; the expiry gate and value read are compared"),
}


def family(P, b):
    out, st = [b], [b]
    while st:
        x = st.pop()
        for c in P.children(x.id):
            out.append(c)
            st.append(c)
    return out


def effects(P, b):
    c = collections.Counter()
    for x in family(P, b):
        for e in x.calls():
            m, cal = e.method, e.callee
            if cl.is_map_call(e):
                c["map." + m] += 1
            elif m in ("read", "write", "read_async", "write_async") and "HybridRwLock" in cal:
                c["lock." + m.replace("_async", "")] += 1
            elif cl.is_expired_call(e):
                c["is_expired"] += 1
            elif cl.is_value_call(e):
                c["value"] += 1
            elif cl.is_cost_call(e):
                c["cost()"] += 1
            elif cl.is_cost_op(x, e):
                c["current_cost." + m] += 1
            elif cl.is_notification_send(e):
                c["notify"] += 1
            elif cl.is_write_event_send(e):
                c["event.write"] += 1
            elif m == "update_last_accessed":
                c["tti.refresh"] += 1
            elif m in ("on_hit", "on_remove", "on_admit", "on_access") or (m == "clear" and "policy" in cal.lower()):
                c["policy." + m] += 1
            elif m in ("schedule", "cancel") and "timer" in cal.lower():
                c["timer." + m] += 1
            elif e.is_atomic and m.startswith("fetch_") and e.args:
                f = x.path_of_operand(e.args[0]).rsplit(".", 1)[-1]
                if f != "current_cost":
                    c["metric." + f] += 1
            elif m in ("record_hits", "record_misses"):
                c["metric." + m] += 1
            elif m in ("trigger_background_load", "load_value_blocking", "load_value_awaiting", "spawn_loader_task", "flush_for_introspection"):
                c["call." + m.replace("_blocking", "").replace("_awaiting", "")] += 1
        for e in x.events:
            if e.kind == "assign" and e.data["r"]["k"] == "agg" and e.data["r"]["adt"].endswith("EvictionReason"):
                c["reason." + e.data["r"]["variant"]] += 1
    return c


PAIRS = [
    ("fibre_cache::handles::sync::Cache", "fibre_cache::handles::futures::AsyncCache", {"load_value_blocking": "load_value_awaiting"}),
    ("fibre_cache::entry_api::VacantEntry", "fibre_cache::entry_api_async::AsyncVacantEntry", {}),
    ("fibre_cache::entry_api::OccupiedEntry", "fibre_cache::entry_api_async::AsyncOccupiedEntry", {}),
]
SYNC_ONLY = {"iter", "iter_with_batch_size", "iter_snapshot", "to_async"}
ASYNC_ONLY = {"iter_stream", "iter_stream_with_batch_size", "iter_snapshot_async", "to_sync"}


def clause2(P, res):
    rid = "C11-2"
    res.rule(rid, "sync/async sibling agreement: for every method that exists on both the blocking and the async cache handle (and on both entry APIs) "
                  "the multiset of cache effects — lock kind, map operations, expiry check, value read, access/TTI refresh, timer schedule/cancel, policy "
                  "callbacks, cost add/sub, write event, listener notification and reason, metrics — is identical; a method may not exist on one side only")
    n = 0
    for sadt, aadt, rename in PAIRS:
        S = {b.name: b for b in P.bodies.values() if b.self_adt == sadt and b.kind == "method" and not b.impl_trait}
        A = {b.name: b for b in P.bodies.values() if b.self_adt == aadt and b.kind == "method" and not b.impl_trait}
        for nm in sorted(set(S) | set(A)):
            anm = rename.get(nm, nm)
            key = f"{sadt.rsplit('::', 1)[-1]}::{nm}"
            if nm in rename.values() and nm not in S:
                continue
            if nm not in S or anm not in A:
                if nm in SYNC_ONLY or nm in ASYNC_ONLY:
                    continue
                side = "blocking" if nm in S else "async"
                res.violated(rid, key, f"`{nm}` exists only on the {side} handle: the sibling API lacks the operation or its checks", where=f"{(S.get(nm) or A.get(nm)).file}:{(S.get(nm) or A.get(nm)).line}")
                continue
            n += 1
            es, ea = effects(P, S[nm]), effects(P, A[anm])
            if nm in ASYM_ROWS:
                drop, why = ASYM_ROWS[nm]
                for k in drop:
                    es.pop(k, None)
                    ea.pop(k, None)
            if es == ea:
                res.holds(rid, key, f"{sum(es.values())} effect(s) agree" + (f" (modulo: {ASYM_ROWS[nm][1]})" if nm in ASYM_ROWS else ""), where=f"{S[nm].file}:{S[nm].line}",
                          nontrivial=bool(es), obligations=max(1, sum(es.values())))
            else:
                res.violated(rid, key, f"effects differ — blocking only: {dict(es - ea)}; async only: {dict(ea - es)}", where=f"{A[anm].file}:{A[anm].line}",
                             witness=[f"blocking: {dict(es)}", f"async: {dict(ea)}"])
    if n < 25:
        res.violated(rid, "sibling-pairs", f"expected >= 25 method pairs, found {n}")


def clause3(P, res):
    rid = "C11-3"
    res.rule(rid, "tables that decide whose value a caller gets are keyed by the key itself: every map-typed field of fibre_cache whose values carry `V` (the shard maps, "
                  "the entry guards over them, the in-flight load table) has key type `K` — equality on K, never a hash or another surrogate, so two keys that collide "
                  "in a hash can never be handed each other's value")
    n = 0
    for a in sorted(P.adts):
        if not a.startswith("fibre_cache::"):
            continue
        for f in P.adt_fields(a):
            for m in re.finditer(r"(HashMap|BTreeMap|IndexMap)<", f["ty"]):
                # split the generic argument list at top level
                s = f["ty"][m.end():]
                depth, args, cur = 0, [], ""
                for ch in s:
                    if ch == "<":
                        depth += 1
                    elif ch == ">":
                        if depth == 0:
                            args.append(cur.strip())
                            break
                        depth -= 1
                    if ch == "," and depth == 0:
                        args.append(cur.strip())
                        cur = ""
                    else:
                        cur += ch
                if len(args) < 2 or not re.search(r"\bV\b", args[1]):
                    continue
                n += 1
                key = f"{a}.{f['name']}"
                if args[0] == "K":
                    res.holds(rid, key, f"{m.group(1)}<K, {args[1][:60]}>", where=a)
                else:
                    res.violated(rid, key, f"`{f['name']}` maps `{args[0]}` (not the key type K) to values carrying V: distinct keys that share that surrogate are handed each other's value",
                                 where=a)
    if n < 5:
        res.violated(rid, "value-tables", f"expected >= 5 map-typed fields carrying V in fibre_cache, found {n}")


def clause4(P, res):
    import re
    rid = "C11-4"
    res.rule(rid, "the shard array that lookups index with `hash & (len - 1)` has a power-of-two length by construction: every value written to CacheBuilder.shards is the "
                  "result of next_power_of_two() (or copied from a snapshot, whose count is that of a built store), or else every builder method that reaches "
                  "build_shared_core rounds the field first — with any other length the masked index and the `hash % len` index used by the bulk operations and by restore "
                  "send one key to two shards (a removed or overwritten key stays readable through the other family of operations)")
    masks = []
    for b in cl.cache_bodies(P):
        for e in b.events:
            if e.kind == "assign" and e.data["r"]["k"] == "bin" and e.data["r"]["op"] == "BitAnd":
                for o in (e.data["r"]["a"], e.data["r"]["b"]):
                    evs, _, _ = mir.operand_sources(b, o)
                    if any(x.kind == "call" and x.method == "len" and x.args and re.search(r"shards$", b.path_of_operand(x.args[0])) for x in evs):
                        masks.append(e)
                        break
    if not masks:
        res.holds(rid, "mask-sites", "no mask-indexed shard access: any shard count is fine", where="cache/src/store.rs", nontrivial=False)
        return
    def rounded(b, op):
        evs, _, _ = mir.operand_sources(b, op)
        if any(x.kind == "call" and x.method == "next_power_of_two" for x in evs):
            return "next_power_of_two"
        pth = b.path_of_operand(op)
        if re.search(r"snapshot\.shards$", pth):
            return "copied from a snapshot (count of a built store)"
        return None
    writes = []
    for b in cl.cache_bodies(P):
        for e in b.events:
            if e.kind != "assign":
                continue
            r = e.data["r"]
            if r["k"] == "agg" and r["adt"].endswith("builder::CacheBuilder") and "shards" in (r.get("fields") or []):
                writes.append((b, e, r["ops"][r["fields"].index("shards")]))
            elif e.data["p"][1] and e.data["p"][1][-1] in (".shards", ".^shards") and "CacheBuilder" in b.locals[e.data["p"][0]].get("ty", "") and r["k"] == "use":
                writes.append((b, e, r["o"]))
    if len(writes) < 3:
        res.unclassified(rid, "shards-writes", f"expected >= 3 writes of CacheBuilder.shards (default, setter, from-snapshot), found {len(writes)}", where="rules/c11.py")
        return
    raw = [(b, e) for b, e, o in writes if not rounded(b, o)]
    for b, e, o in writes:
        if rounded(b, o):
            res.holds(rid, f"{b.id}:shards-write", f"shards <- {rounded(b, o)}", where=e.loc)
    if not raw:
        return
    core = "fibre_cache::builder::CacheBuilder::<K, V, H>::build_shared_core"
    entries = [b for b in cl.cache_bodies(P) if any(e.callee_resolved == core or e.callee == core for e in b.calls())]
    if not entries:
        res.unclassified(rid, "entries", "no caller of build_shared_core found", where="rules/c11.py")
    for en in entries:
        call = [e for e in en.calls() if e.callee_resolved == core or e.callee == core][0]
        ok = [e for b, e, o in writes if b is en and rounded(b, o) and en.dominated_by_any(call.pos, {e.pos})]
        key = f"{en.id}:rounds-before-build"
        if ok:
            res.holds(rid, key, f"rounds the shard count at {ok[0].loc} before building", where=ok[0].loc)
        else:
            rb, re_ = raw[0]
            res.violated(rid, key, f"{en.name} builds the store with whatever CacheBuilder.shards holds, and {rb.name} stores an unrounded value into it at {re_.loc}: "
                         f"with a length that is not a power of two the {len(masks)} masked lookups (`hash & (len-1)`) and the `hash % len` sites disagree about a key's shard",
                         where=call.loc, witness=[f"unrounded write {re_.loc}"] + [f"mask {m.loc}" for m in masks[:4]])


def clause5(P, res):
    rid = "C11-5"
    res.rule(rid, "clear() is unconditional: every path through Cache::clear / AsyncCache::clear takes the shard write locks and clears the maps — no early return decided "
                  "from a counter or a metric (the cost gauge reads 0 while zero-cost entries are resident, or transiently while overwrites are in flight; a clear that "
                  "trusts it leaves values readable after it completed)")
    n = 0
    for b in cl.cache_bodies(P):
        if not re.search(r"handles::(sync::Cache|futures::AsyncCache)::<K, V, H>::clear(::\{closure#0\})?$", b.id):
            continue
        clears = cl.map_events(b, {"clear"})
        if not clears:
            continue
        n += 1
        # the per-shard loop may run zero times; what must not exist is a path to the exit that never reaches the loop that clears
        loop_heads = set()
        for c in clears:
            for e in b.calls():
                if e.method in ("next",) and "Iterator" in e.callee and c.pos in b.pos_reach_set(e.pos) and e.pos in b.pos_reach_set(c.pos):
                    loop_heads.add(e.pos)
        through = loop_heads or {c.pos for c in clears}
        if cl.all_paths_pass(b, [(0, 0)], list(through)):
            res.holds(rid, b.id, "every path reaches the loop that clears the shard maps", where=clears[0].loc)
        else:
            res.violated(rid, b.id, f"a path through clear() returns without reaching the shard-map clear at {clears[0].loc}: an emptiness shortcut taken from a counter "
                         "leaves resident values readable after clear() completed", where=f"{b.file}:{b.line}")
    if n < 2:
        res.unclassified(rid, "clear-bodies", f"expected the two clear() bodies, found {n}", where="rules/c11.py")


def run(P, ctx):
    res = Result("C11")
    res.extra["explanation"] = ("Entry-guard continuity, compute exclusivity, blocking/async sibling agreement, and (by reference) the expiry gate on every read path. "
                                "Per-key linearizability is a history property and is not decided; that all map mutations need the shard write lock is enforced by the types.")
    clause1(P, res)
    clause2(P, res)
    clause3(P, res)
    clause4(P, res)
    clause5(P, res)
    res.notes.append("the expiry gate on read paths is decided under C12-1 (and C17-1 for iterators/snapshots); it is not repeated here")
    return res
