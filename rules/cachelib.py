"""Selectors for the fibre_cache rules: shard-map events, cost counter, listener and policy channels."""
import mir

CRATE = "fibre_cache::"


def cache_bodies(P):
    return [b for b in P.bodies.values() if b.id.startswith(CRATE) and "::tests::" not in b.id]


def is_map_call(e):
    return e.kind == "call" and e.callee.startswith("std::collections::hash::map::HashMap::<") and "CacheEntry<" in e.callee_full


MAP_LOOKUPS = {"get", "get_key_value", "get_mut", "iter", "iter_mut", "values", "values_mut"}
MAP_REMOVALS = {"remove", "remove_entry", "retain", "clear", "drain"}
MAP_INSERTS = {"insert"}


def map_events(body, methods):
    return [e for e in body.calls() if is_map_call(e) and e.method in methods]


def is_cost_op(body, e):
    if not (e.kind == "call" and e.is_atomic and e.args):
        return False
    p = body.path_of_operand(e.args[0])
    return p.endswith(".current_cost") or p == "current_cost"


def cost_ops(body, methods=None):
    return [e for e in body.calls() if is_cost_op(body, e) and (methods is None or e.method in methods)]


def is_notification_send(e):
    return e.kind == "call" and e.method in ("try_send", "send") and e.callee.startswith("fibre::") and "EvictionReason" in e.callee_full


def is_write_event_send(e):
    return e.kind == "call" and e.method in ("try_send", "send") and e.callee.startswith("fibre::") and "AccessEvent<" in e.callee_full


def is_cost_call(e):
    return e.kind == "call" and e.callee == "fibre_cache::entry::CacheEntry::<V>::cost"


def is_value_call(e):
    return e.kind == "call" and e.callee == "fibre_cache::entry::CacheEntry::<V>::value"


def is_expired_call(e):
    return e.kind == "call" and e.callee == "fibre_cache::entry::CacheEntry::<V>::is_expired"


def result_switch_edges(body, call, label):
    """Edges labelled `label` of switches whose scrutinee is (a projection of) the result of `call`."""
    dest = call.data["d"][0]
    al = mir.alias_locals(body, dest)
    out = []
    for blk in range(len(body.blocks)):
        if body.is_cleanup(blk):
            continue
        t = body.term(blk)
        if t["k"] != "switch":
            continue
        on = t.get("on", {})
        if on.get("kind") == "discr" and on["p"][0] in al:
            out.extend(body.edges_by_label(blk).get(label, []))
    return out


def entry_origin(path):
    """Classify where a CacheEntry reference came from, from its symbolic path."""
    if "::remove" in path or "::remove_entry" in path or "::insert" in path and "HashMap" in path:
        return "removed"
    if "HashMap" in path and any(("::" + m) in path for m in ("get@", "get_key_value@", "get_mut@", "get")):
        return "lookup"
    if "Iterator::next" in path or "::iter" in path:
        return "lookup"
    if "new_cache_entry" in path or "CacheEntry::<V>::new" in path:
        return "fresh"
    return "param"


def all_paths_pass(body, start_positions, through, strict=False):
    """Every path from any start position to a return passes through a position in `through`."""
    exits = set(body.exits())
    thr = frozenset(through)
    for s in start_positions:
        if s in thr:
            continue
        r = body.pos_reach_set(s, removed=thr, strict=strict)
        if r & exits:
            return False
    return True
