"""C03 — bounded channels never exceed capacity. DESIGN.md §4 C03 (one clause, partial)."""
import re

import mir
from report import Result
from rules import common, orderings


def _edges(b, pred_call, want_true=True):
    out = []
    for blk in range(len(b.blocks)):
        s = None if b.is_cleanup(blk) else b.switch_source(blk)
        if s and s["kind"] == "call" and pred_call(s["event"]):
            lab = want_true
            if s.get("neg"):
                lab = not lab
            out.extend(b.edges_by_label(blk).get("true" if lab else "false", []))
    return out


def clause1(P, res):
    rid = "C03-1"
    res.rule(rid, "a value-carrying commit is control-dependent on the admission predicate of the same claim: mpsc-bounded writes Some(value) into a "
                  "claimed slot only on the true edge of credit_ok (and a tombstone otherwise), batch runs are resolved with the `valid` count computed "
                  "by claim_run; mpmc-bounded pushes into the ring only under the mutex on the not-full edge; oneshot writes its slot only after "
                  "winning EMPTY->WRITING; a rendezvous send reports Ok only after fulfilling a parked receiver or reading DONE")
    n = 0
    # --- mpsc bounded: write_slot(ticket, Some(v)) behind credit_ok
    for b in P.bodies_in("fibre::mpsc::bounded_v3::shared::Shared::<T>::"):
        for e in b.calls():
            if e.method != "write_slot" or len(e.args) < 3:
                continue
            c = b.const_of_operand(e.args[2])
            d = b.def_event_of_operand(e.args[2])
            is_some = d is not None and d.kind == "assign" and d.data["r"]["k"] == "agg" and d.data["r"]["variant"] == "Some"
            key = f"{b.id}:write_slot:{'Some' if is_some else 'None'}"
            n += 1
            okE = _edges(b, lambda x: re.fullmatch(r"credit_ok(_cold)?", x.method or "") is not None, True)
            if is_some:
                if okE and b.edges_dominate(okE, e.pos):
                    res.holds(rid, key, "value written only after credit_ok(ticket) returned true", where=e.loc)
                else:
                    res.violated(rid, key, f"a value is committed into a claimed slot at {e.loc} without the claim's credit check having succeeded: the channel can hold more than `cap` values",
                                 where=e.loc)
            else:
                badE = _edges(b, lambda x: re.fullmatch(r"credit_ok(_cold)?", x.method or "") is not None, False)
                if badE and b.edges_dominate(badE, e.pos):
                    res.holds(rid, key, "overshoot ticket is tombstoned (SKIP) on the failed-credit edge", where=e.loc)
                else:
                    res.violated(rid, key, f"tombstone write at {e.loc} is not tied to the failed credit check", where=e.loc)
    for b in P.bodies.values():
        if not b.id.startswith("fibre::mpsc::bounded_v3::"):
            continue
        for e in b.calls():
            if e.method == "resolve_run" and len(e.args) >= 4:
                n += 1
                key = f"{b.id}:resolve_run"
                srcs = mir.derives_from_call(b, e.args[2], lambda x: re.fullmatch(r"claim_run(_cold)?", x.method or "") is not None)
                if srcs:
                    res.holds(rid, key, f"`valid` comes from {srcs[0].method} at {srcs[0].loc}", where=e.loc)
                else:
                    res.violated(rid, key, f"resolve_run at {e.loc} is given a `valid` count that does not come from claim_run: more values than the credit window allows can be written",
                                 where=e.loc)
    # --- mpmc bounded: push_back into the ring
    for b in P.bodies_in("fibre::mpmc_v2::core::MpmcShared::<T>::"):
        locks = [x for x in b.calls() if x.method == "lock" and x.args and b.path_of_operand(x.args[0]).endswith(".internal")]
        held = mir.guards_held(b, [(l, None) for l in locks])[0] if locks else set()
        for e in b.calls():
            if e.method == "push_back" and "MpmcChannelInternal" in e.callee_full:
                n += 1
                key = f"{b.id}:push_back"
                # the logical fullness test: MpmcChannelInternal::is_full(capacity) — not the physical ring's is_full() (rounded up to a power of two)
                notfull = _edges(b, lambda x: x.method == "is_full" and "MpmcChannelInternal" in x.callee_full and len(x.args) >= 2, False)
                # `guard.len() < capacity`
                for blk in range(len(b.blocks)):
                    s = None if b.is_cleanup(blk) else b.switch_source(blk)
                    if s and s["kind"] == "cmp" and s["op"] in ("Lt", "Le"):
                        pa = b.producer_call(s["a"])
                        if pa is not None and pa.method == "len" and CAP_RX.search(b.path_of_operand(s["b"])):
                            notfull.extend(b.edges_by_label(blk).get("false" if s.get("neg") else "true", []))
                if e.pos not in held:
                    res.violated(rid, key, f"ring push at {e.loc} outside the channel mutex", where=e.loc)
                elif notfull and b.edges_dominate(notfull, e.pos):
                    res.holds(rid, key, "push under the mutex on a not-full edge", where=e.loc)
                else:
                    res.violated(rid, key, f"ring push at {e.loc} is not behind a fullness check taken under the same lock: the buffer can grow past capacity", where=e.loc)
    # --- oneshot
    b = P.body("fibre::oneshot::core::OneShotShared::<T>::send")
    if b is not None:
        n += 1
        ok_edges = []
        for blk in range(len(b.blocks)):
            s = None if b.is_cleanup(blk) else b.switch_source(blk)
            if s and s["kind"] == "discr" and s.get("def") is not None and s["def"].kind == "call" and s["def"].is_atomic and s["def"].method.startswith("compare_exchange"):
                ok_edges.extend(b.edges_by_label(blk).get("Ok", []))
        writes = [e for e in b.events if e.kind == "assign" and "*" in e.data["p"][1] and ("value_slot" in b.path_of_place(e.data["p"]) or "guard" in b.path_of_place(e.data["p"], through_user=False))]
        if writes and ok_edges and all(b.edges_dominate(ok_edges, w.pos) for w in writes):
            res.holds(rid, b.id, "value slot written only after winning EMPTY->WRITING", where=writes[0].loc)
        else:
            res.violated(rid, b.id, "oneshot value slot written without having won the EMPTY->WRITING transition: a second send can overwrite the first", where=f"{b.file}:{b.line}")
    # --- rendezvous: Ok only by pairing
    for bid in ("fibre::internal::rendezvous::RendezvousShared::<T, R>::try_send", "fibre::internal::rendezvous::RendezvousShared::<T, R>::send_blocking",
                "fibre::internal::rendezvous::RendezvousShared::<T, R>::poll_send"):
        b = P.body(bid)
        if b is None:
            res.unclassified(rid, bid, "rendezvous send form not found")
            continue
        oks = [e for e in b.events if e.kind == "assign" and e.data["r"]["k"] == "agg" and e.data["r"]["variant"] == "Ok" and e.data["r"]["adt"] == "core::result::Result"]
        ful = {e.pos for e in b.calls() if e.method == "fulfill_receiver"}
        done_edges = []
        for blk in range(len(b.blocks)):
            t = b.term(blk)
            if not b.is_cleanup(blk) and t["k"] == "switch" and t.get("on", {}).get("kind") == "int":
                src = b.producer_call(t["o"])
                if src is not None and src.is_atomic and src.method == "load" and (orderings._ordering(b, src) or ["?"])[0] in orderings.STRONG_R:
                    done_edges += [(blk, x) for x in b.succ[blk]]
        for i, o in enumerate(oks):
            n += 1
            key = f"{bid}:Ok#{i}"
            if b.dominated_by_any(o.pos, ful) or (done_edges and b.edges_dominate(done_edges, o.pos)):
                res.holds(rid, key, "Ok only after fulfilling a receiver / reading the terminal state", where=o.loc)
            else:
                res.violated(rid, key, f"rendezvous send reports Ok at {o.loc} without having paired with a receiver", where=o.loc)
    if n < 12:
        res.violated(rid, "admission-sites", f"expected >= 12 admission-gated commit sites, found {n}")


RING_SCOPE = re.compile(r"^fibre::<?(spsc::shared|mpsc::bounded_v3|spmc::ring_buffer)")
CURSOR_FIELDS = ("head", "tail", "consumer_tail_idx", "drained", "progress", "state", "consumer_retired", "sequence")


def clause2(P, res):
    from rules import pubsub, cachelib
    rid = "C03-2"
    res.rule(rid, "a slot is handed back only after its payload is out: in the lock-free bounded rings (spsc, mpsc-bounded, spmc) no write to a cursor/state "
                  "field of the ring dominates the payload read of the same dequeue, and every path from the read to the return passes a >=Release write that "
                  "hands the slot back — a cursor published first lets the producer admit an (N+1)th value into a slot still being read")
    n = 0
    for b in P.bodies.values():
        if not RING_SCOPE.search(b.id) or "::tests::" in b.id or not common.in_scope(b.id):
            continue
        R = pubsub.payload_reads(b)
        if not R or (b.impl_trait or "").endswith("Drop"):
            continue
        aw = pubsub.atomic_writes(b)
        for i, r in enumerate(R):
            n += 1
            key = f"{b.id}:read#{i}"
            early = [x for x in aw if x.args and b.path_of_operand(x.args[0]).rsplit(".", 1)[-1] in CURSOR_FIELDS and b.dominated_by_any(r.pos, {x.pos})]
            rel = [x for x in aw if (pubsub._ord(b, x) or ["?"])[0] in orderings.STRONG_W]
            if early:
                res.violated(rid, key, f"the {early[0].method} on `{b.path_of_operand(early[0].args[0]).rsplit('.', 1)[-1]}` at {early[0].loc} hands the slot back before its payload is read at {r.loc}: "
                             "a full ring admits another value into the slot being read", where=r.loc)
            elif not rel or not cachelib.all_paths_pass(b, [r.pos], [x.pos for x in rel], strict=True):
                res.violated(rid, key, f"a path from the payload read at {r.loc} returns without a >=Release write handing the slot back", where=r.loc)
            else:
                res.holds(rid, key, f"read {r.loc}, then {rel[0].method}(Release) on `{b.path_of_operand(rel[0].args[0]).rsplit('.', 1)[-1]}`", where=r.loc)
    if n < 5:
        res.violated(rid, "ring-dequeue-sites", f"expected >= 5 payload reads in the bounded rings, found {n}")


CAP_RX = re.compile(r"(^|\.)(cap|capacity|logical_cap)$")


def plus_one(b, op):
    d = b.def_event_of_operand(op)
    if d is None:
        return False
    if d.kind == "assign" and d.data["r"]["k"] == "bin" and d.data["r"]["op"] in ("Add", "AddWithOverflow", "AddUnchecked"):
        k = b.const_of_operand(d.data["r"]["b"]) or b.const_of_operand(d.data["r"]["a"])
        return k is not None and k.get("v") == 1
    if d.kind == "call" and d.method in ("wrapping_add", "saturating_add", "checked_add") and len(d.args) == 2:
        k = b.const_of_operand(d.args[1])
        return k is not None and k.get("v") == 1
    return False


def is_occupancy(b, op):
    """the operand is a fill level of channel state: a difference of indices, len() of channel state (not of the caller's batch), or a *len/*count field"""
    d = b.def_event_of_operand(op)
    pth = b.path_of_operand(op)
    if re.search(r"(^|\.)(queue_len|len|count|occupied|used)$", pth):
        return True
    if d is None:
        return bool(re.search(r"\.(0|1)$", pth))      # a component of a (len, …) tuple returned by a helper such as producer_space
    if d.kind == "call":
        if d.method in ("wrapping_sub", "saturating_sub", "checked_sub"):
            return True
        if d.method == "len" and d.args:
            return not re.search(r"(^|\.)(items|iter|out|batch|unsent|buf|values)$", b.path_of_operand(d.args[0]))
        return bool(re.search(r"\.(0|1)$", pth))
    if d.kind == "assign" and d.data["r"]["k"] == "bin" and d.data["r"]["op"].startswith("Sub"):
        return True
    return plus_one(b, op) or bool(re.search(r"\.(0|1)$", pth))


def clause3(P, res):
    rid = "C03-3"
    res.rule(rid, "occupancy is compared strictly against capacity: every ordering comparison between a (non-constant) occupancy expression and a capacity "
                  "field of a channel is one of `occ < cap`, `occ >= cap`, `cap > occ`, `cap <= occ` (or the `occ + 1 <= cap` spelling) — `occ <= cap` / "
                  "`occ > cap` admit an (N+1)th value or report Full one early")
    n = 0
    for b in P.bodies.values():
        if not b.id.startswith("fibre::") or "::tests::" in b.id or not common.in_scope(b.id):
            continue
        k = 0
        for e in b.events:
            if e.kind != "assign" or e.data["r"]["k"] != "bin" or e.data["r"]["op"] not in ("Lt", "Le", "Gt", "Ge"):
                continue
            r = e.data["r"]
            pa, pb = b.path_of_operand(r["a"]), b.path_of_operand(r["b"])
            ca, cb = bool(CAP_RX.search(pa)), bool(CAP_RX.search(pb))
            if ca == cb:
                continue
            occ = r["b"] if ca else r["a"]
            if b.const_of_operand(occ) is not None:
                continue      # capacity > 0 style configuration tests
            if not is_occupancy(b, occ):
                continue      # e.g. a batch length compared with the capacity: not an admission test
            n += 1
            key = f"{b.id}:cmp#{k}"
            k += 1
            op = r["op"] if cb else {"Lt": "Gt", "Gt": "Lt", "Le": "Ge", "Ge": "Le"}[r["op"]]   # normalised to  occ <op> cap
            if op in ("Lt", "Ge"):
                res.holds(rid, key, f"occ {'<' if op == 'Lt' else '>='} cap", where=e.loc)
            elif plus_one(b, occ):
                res.holds(rid, key, "occ + 1 <=/> cap (strict in occ)", where=e.loc)
            else:
                res.violated(rid, key, f"occupancy is compared with `{'<=' if op == 'Le' else '>'}` against the capacity at {e.loc}: off by one — the channel admits capacity+1 values "
                             "(or refuses the last slot)", where=e.loc)
    if n < 20:
        res.violated(rid, "capacity-comparisons", f"expected >= 20 occupancy/capacity comparisons, found {n}")


def clause4(P, res):
    rid = "C03-4"
    res.rule(rid, "one-shot state transitions use the strong compare-exchange: outside the hybrid locks' acquisition fast paths (whose callers loop), no channel code "
                  "calls compare_exchange_weak — a weak CAS may fail spuriously, and every CAS in the channel state machines (oneshot EMPTY->WRITING, waiter "
                  "WAITING->terminal, park flags) reports its failure as a definite outcome (`Sent(value)`, `lost the race`) instead of retrying")
    weak = strong = 0
    for b in P.bodies.values():
        if not b.id.startswith("fibre::") or "::tests::" in b.id or not common.in_scope(b.id):
            continue
        for e in b.calls():
            if not e.is_atomic:
                continue
            if e.method == "compare_exchange":
                strong += 1
            elif e.method == "compare_exchange_weak":
                weak += 1
                key = f"{b.id}:compare_exchange_weak"
                in_sync = b.id.startswith("fibre::sync::") or b.id.startswith("fibre::<sync::")
                looped = e.pos in b.pos_reach_set(e.pos)
                if in_sync or looped:
                    res.holds(rid, key, "lock fast path (callers retry)" if in_sync else "inside a retry loop", where=e.loc)
                else:
                    res.violated(rid, key, f"compare_exchange_weak at {e.loc} is not retried: a spurious failure is reported as a lost race (e.g. the first oneshot send "
                                 "fails with Sent(value) on an empty channel)", where=e.loc)
    res.holds(rid, "strong-cas-sites", f"{strong} strong compare_exchange sites in channel code, {weak} weak", where="channels/src", nontrivial=False)
    if strong < 30 or weak < 1:
        res.violated(rid, "cas-census", f"expected >= 30 strong and >= 1 weak compare-exchange sites (matcher self-check), found {strong}/{weak}")


def _producer(P, b, op, depth=0):
    """(body, call event) that produces op, looking through fibre helper functions (their return value) up to two levels"""
    e = b.producer_call(op)
    if e is None:
        return None
    tgt = P.body(e.callee_resolved)
    if tgt is not None and tgt.id.startswith("fibre::") and depth < 2:
        for r in tgt.events:
            if r.kind == "call" and r.data["d"][0] == 0:
                return (tgt, r)
            if r.kind == "assign" and r.data["p"][0] == 0 and r.data["r"]["k"] == "use":
                return _producer(P, tgt, r.data["r"]["o"], depth + 1)
        return None
    return (b, e)


def clause5(P, res):
    rid = "C03-5"
    res.rule(rid, "the window remainder of a claimed run saturates: in claim_run / claim_run_cold the `valid` count returned next to the claimed ticket is "
                  "min(claimed, remainder) where the remainder is produced by saturating_sub (or checked_sub) — a wrapping or plain subtraction turns a run claimed "
                  "entirely past the window (three producers racing between the gate and the fetch_add) into a huge remainder, `valid` becomes the whole run and it is "
                  "written past the capacity")
    n = 0
    for b in P.bodies.values():
        if not re.search(r"^fibre::mpsc::bounded_v3::shared::Shared::<T>::claim_run(_cold)?$", b.id):
            continue
        tuples = [e for e in b.events if e.kind == "assign" and e.data["p"][0] == 0 and e.data["r"]["k"] == "tuple" and len(e.data["r"]["ops"]) == 3]
        if not tuples:
            res.unclassified(rid, b.id, "claim function without a (ticket, valid, claimed) tuple", where=f"{b.file}:{b.line}")
            continue
        for t in tuples:
            op = t.data["r"]["ops"][1]
            if (b.const_of_operand(op) or {}).get("v") == 0:
                continue  # the early `(0, 0, 0)` return
            n += 1
            pr = _producer(P, b, op)
            ok, why = False, "the valid count is not produced by a `min`"
            if pr is not None and pr[1].method == "min":
                mb, me = pr
                why = "neither operand of the `min` is a saturating remainder"
                for a in me.args:
                    q = _producer(P, mb, a)
                    if q is not None and q[1].method in ("saturating_sub", "checked_sub"):
                        ok = True
                    elif q is not None and q[1].method in ("wrapping_sub", "sub", "unchecked_sub"):
                        why = f"the remainder is computed with {q[1].method} at {q[1].loc}"
                if not ok:
                    for x in mb.events:
                        if x.kind == "assign" and x.data["r"]["k"] == "bin" and x.data["r"]["op"].startswith("Sub") and any(
                                (mir.op_place(a) or [None])[0] == x.data["p"][0] for a in me.args):
                            why = f"the remainder is a plain subtraction at {x.loc}"
            if ok:
                res.holds(rid, b.id, "valid = min(claimed, window_end.saturating_sub(ticket))", where=t.loc)
            else:
                res.violated(rid, b.id, f"the `valid` count returned at {t.loc} is not a saturating window remainder ({why}): a run claimed past the window is admitted "
                             "whole instead of being tombstoned", where=t.loc)
    if n < 2:
        res.violated(rid, "claim-sites", f"expected the two claim functions of the bounded mpsc, found {n}")


def run(P, ctx):
    res = Result("C03")
    res.extra["explanation"] = ("Admission-gate shape of value-carrying commits where the admission predicate is a call (mpsc-bounded credit, mpmc-bounded fullness under "
                                "the lock, oneshot CAS, rendezvous pairing). SPSC/SPMC admission is inline index arithmetic and is NOT decided; len()<=capacity as a number is not decided.")
    clause1(P, res)
    clause2(P, res)
    clause3(P, res)
    clause4(P, res)
    clause5(P, res)
    return res
