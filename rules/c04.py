"""C04 — disconnect protocol. Clauses decided: see DESIGN.md §4 C04."""
import re

import mir
from report import Result
from rules import common

# Methods of a handle that are not send/recv operations. Anything not listed is an operation
# and must be gated (fail closed on new methods).
OBSERVERS = {
    "is_closed": "observer: reports the flag itself",
    "capacity": "observer",
    "len": "observer",
    "is_empty": "observer",
    "is_full": "observer",
    "sender_count": "observer",
    "receiver_count": "observer",
    "is_sent": "observer (oneshot)",
    "dropped_count": "observer (topic mailbox statistics)",
}
LIFECYCLE = {
    "close": "lifecycle: sets the flag (C04-4)",
    "clone": "lifecycle (C04-2)",
    "to_sync": "lifecycle (C04-3)",
    "to_async": "lifecycle (C04-3)",
    "drop": "lifecycle (C04-4)",
    "fmt": "Debug",
    "new": "constructor",
    "subscribe": "subscription management: not a send/receive form; the property speaks of operations that move values",
    "unsubscribe": "subscription management: not a send/receive form",
}


def op_methods(P, h):
    out = []
    for m in sorted(P.methods_of(h.path), key=lambda b: (b.file, b.line)):
        if m.impl_trait:
            if m.impl_trait == "futures_core::stream::Stream" and m.name == "poll_next":
                out.append(m)
            continue
        if m.vis != "pub":
            continue
        if m.name in OBSERVERS or m.name in LIFECYCLE:
            continue
        out.append(m)
    return out


def clause1(P, res, hs):
    rid = "C04-1"
    res.rule(rid, "closed gate: in every send/receive form of every handle (and in the poll of every future "
                  "holding a handle), each use of channel state reached through the handle is control-dependent "
                  "on having read that handle's `closed` flag as false (interprocedural through gated delegates)")
    memo = {}
    futs = common.future_types(P, hs)
    own = set()
    for h in hs.values():
        own.update(m.id for m in op_methods(P, h))
    for adt, info in futs.items():
        if info["links"]:
            pb = common.poll_body(P, adt)
            if pb is not None:
                own.add(pb.id)
    own = frozenset(own)
    for h in hs.values():
        for m in op_methods(P, h):
            body = common.effective_body(P, m)
            st = common.gate_status(P, hs, body, "self", memo, 0, own)
            key = m.id
            where = f"{m.file}:{m.line}"
            if st.ok:
                dele = [t for _, t, ok in st.delegated]
                detail = f"gates={len(st.gates)} guarded uses={st.needs} delegates={len(dele)}"
                nontriv = bool(st.needs or dele)
                res.holds(rid, key, detail, where=where, nontrivial=nontriv, obligations=max(1, st.needs + len(dele)),
                          witness=[f"gate at bb{b} ({lab} edge = not closed)" for b, lab in st.gates] + [f"delegates to {t}" for t in dele][:6])
            else:
                e, why = st.bad[0]
                res.violated(rid, key, f"operation reaches channel state without consulting `closed`: {why} at {e.loc}"
                             + ("" if st.gates else " (the function never reads its `closed` flag)"),
                             where=where, obligations=max(1, st.needs),
                             witness=[f"{x.loc}: {w} [{x.callee_full or x.kind}]" for x, w in st.bad[:12]])
    # every Future/Stream type that holds a handle: its poll is an operation of that handle
    for adt, info in sorted(futs.items()):
        if not info["links"]:
            continue
        pb = common.poll_body(P, adt)
        if pb is None:
            res.unclassified(rid, adt + "::poll", "Future/Stream impl without a poll body in the fact base")
            continue
        for fname, hp in info["links"]:
            st = common.gate_status(P, hs, pb, "self." + fname, memo, 0, own)
            key = f"{pb.id}[{fname}]"
            where = f"{pb.file}:{pb.line}"
            if st.ok:
                res.holds(rid, key, f"gates={len(st.gates)} guarded uses={st.needs}", where=where,
                          nontrivial=bool(st.needs), obligations=max(1, st.needs),
                          witness=[f"gate at bb{b} ({lab} edge = not closed)" for b, lab in st.gates])
            else:
                e, why = st.bad[0]
                res.violated(rid, key, f"poll reaches channel state through `{fname}` without consulting its `closed` flag: {why} at {e.loc}"
                             + ("" if st.gates else " (poll never reads the flag)"),
                             where=where, obligations=max(1, st.needs),
                             witness=[f"{x.loc}: {w} [{x.callee_full or x.kind}]" for x, w in st.bad[:12]])


def run(P, ctx):
    res = Result("C04")
    res.extra["explanation"] = ("Closed-gate, last-handle, conversion, drop-once and drain-before-Disconnected clauses "
                                "evaluated on the MIR of every channel handle type of crate fibre.")
    hs = common.handles(P)
    res.extra["handles"] = sorted(hs)
    clause1(P, res, hs)
    return res
