"""C04 — disconnect protocol. Clauses decided: see DESIGN.md §4 C04."""
import re

import mir
from report import Result
from rules import common

# Methods of a handle that are not send/recv operations. Anything not listed is an operation
# and must be gated (fail closed on new methods).
OBSERVERS = {
    "is_closed": "observer: reports the flag itself",
    "capacity": "observer",
    "len": "observer",
    "is_empty": "observer",
    "is_full": "observer",
    "sender_count": "observer",
    "receiver_count": "observer",
    "is_sent": "observer (oneshot)",
    "dropped_count": "observer (topic mailbox statistics)",
}
LIFECYCLE = {
    "close": "lifecycle: sets the flag (C04-4)",
    "clone": "lifecycle (C04-2)",
    "to_sync": "lifecycle (C04-3)",
    "to_async": "lifecycle (C04-3)",
    "drop": "lifecycle (C04-4)",
    "fmt": "Debug",
    "new": "constructor",
    "subscribe": "subscription management: not a send/receive form; the property speaks of operations that move values",
    "unsubscribe": "subscription management: not a send/receive form",
}


def op_methods(P, h):
    out = []
    for m in sorted(P.methods_of(h.path), key=lambda b: (b.file, b.line)):
        if m.impl_trait:
            if m.impl_trait == "futures_core::stream::Stream" and m.name == "poll_next":
                out.append(m)
            continue
        if m.vis != "pub":
            continue
        if m.name in OBSERVERS or m.name in LIFECYCLE:
            continue
        out.append(m)
    return out


def clause1(P, res, hs):
    rid = "C04-1"
    res.rule(rid, "closed gate: in every send/receive form of every handle (and in the poll of every future "
                  "holding a handle), each use of channel state reached through the handle is control-dependent "
                  "on having read that handle's `closed` flag as false (interprocedural through gated delegates)")
    memo = {}
    futs = common.future_types(P, hs)
    own = set()
    for h in hs.values():
        own.update(m.id for m in op_methods(P, h))
    for adt, info in futs.items():
        if info["links"]:
            pb = common.poll_body(P, adt)
            if pb is not None:
                own.add(pb.id)
    own = frozenset(own)
    for h in hs.values():
        for m in op_methods(P, h):
            body = common.effective_body(P, m)
            st = common.gate_status(P, hs, body, "self", memo, 0, own)
            key = m.id
            where = f"{m.file}:{m.line}"
            if st.ok:
                dele = [t for _, t, ok in st.delegated]
                detail = f"gates={len(st.gates)} guarded uses={st.needs} delegates={len(dele)}"
                nontriv = bool(st.needs or dele)
                res.holds(rid, key, detail, where=where, nontrivial=nontriv, obligations=max(1, st.needs + len(dele)),
                          witness=[f"gate at bb{b} ({lab} edge = not closed)" for b, lab in st.gates] + [f"delegates to {t}" for t in dele][:6])
            else:
                e, why = st.bad[0]
                res.violated(rid, key, f"operation reaches channel state without consulting `closed`: {why} at {e.loc}"
                             + ("" if st.gates else " (the function never reads its `closed` flag)"),
                             where=where, obligations=max(1, st.needs),
                             witness=[f"{x.loc}: {w} [{x.callee_full or x.kind}]" for x, w in st.bad[:12]])
    # every Future/Stream type that holds a handle: its poll is an operation of that handle
    for adt, info in sorted(futs.items()):
        if not info["links"]:
            continue
        pb = common.poll_body(P, adt)
        if pb is None:
            res.unclassified(rid, adt + "::poll", "Future/Stream impl without a poll body in the fact base")
            continue
        for fname, hp in info["links"]:
            st = common.gate_status(P, hs, pb, "self." + fname, memo, 0, own)
            key = f"{pb.id}[{fname}]"
            where = f"{pb.file}:{pb.line}"
            if st.ok:
                res.holds(rid, key, f"gates={len(st.gates)} guarded uses={st.needs}", where=where,
                          nontrivial=bool(st.needs), obligations=max(1, st.needs),
                          witness=[f"gate at bb{b} ({lab} edge = not closed)" for b, lab in st.gates])
            else:
                e, why = st.bad[0]
                res.violated(rid, key, f"poll reaches channel state through `{fname}` without consulting its `closed` flag: {why} at {e.loc}"
                             + ("" if st.gates else " (poll never reads the flag)"),
                             where=where, obligations=max(1, st.needs),
                             witness=[f"{x.loc}: {w} [{x.callee_full or x.kind}]" for x, w in st.bad[:12]])


VALUE_CARRIERS = {"core::ptr::read", "core::sync::atomic::Atomic::<bool>::new", "core::sync::atomic::Atomic::<bool>::load",
                  "core::sync::atomic::Atomic::<bool>::into_inner", "core::sync::atomic::Atomic::<bool>::get_mut",
                  "core::mem::replace", "core::mem::take"}


def origin(body, op, depth=0):
    """Where does the value of this operand come from? returns a path string or 'const:…'."""
    p = mir.op_place(op)
    if p is None:
        c = mir.op_const(op)
        return "const:" + str(c.get("s") if c else "?")
    if depth > 12:
        return body.path_of_place(p)
    if not p[1]:
        e = body.single_def(p[0])
        if e is not None and e.kind == "call" and (e.callee in VALUE_CARRIERS or e.callee in mir.TRANSPARENT_METHODS) and e.args:
            return origin(body, e.args[0], depth + 1)
        if e is not None and e.kind == "assign":
            r = e.data["r"]
            if r["k"] == "use":
                return origin(body, r["o"], depth + 1)
            if r["k"] in ("ref", "rawptr"):
                return origin(body, {"c": r["p"]}, depth + 1)
            if r["k"] == "cast":
                return origin(body, r["o"], depth + 1)
    else:
        # projection through a local: resolve the base, re-append
        base = origin(body, {"c": [p[0], []]}, depth + 1)
        if not base.startswith("const:"):
            tail = "".join(x if x.startswith(".") and not x.startswith(".^") else ("." + x[2:] if x.startswith(".^") else "") for x in p[1] if x != "*")
            s = base + tail
            return s[5:] if s.startswith("$env.") else s
    return body.path_of_place(p)


def find_handle_aggregates(P, hs, body, depth=0, seen=None):
    """Aggregates of a handle type constructed in body or in helper constructors it calls
    (from_shared and the like): [(body, event, rvalue)]"""
    seen = seen if seen is not None else set()
    if body.id in seen or depth > 3:
        return []
    seen.add(body.id)
    out = []
    for e in body.events:
        if e.kind == "assign" and e.data["r"]["k"] == "agg" and e.data["r"]["adt"] in hs:
            out.append((body, e, e.data["r"]))
        elif e.kind == "call":
            tgt = P.body(e.callee_resolved)
            if tgt is not None and tgt.name in ("from_shared", "new", "from_parts", "from_raw_parts"):
                out.extend(find_handle_aggregates(P, hs, tgt, depth + 1, seen))
    return out


COUNTER_INC = {"fetch_add"}
COUNTER_DEC = {"fetch_sub"}


def counter_ops(P, body, depth=0, seen=None, via=()):
    """inc/dec style registration events reachable from body through fibre callees (depth<=4):
    [(kind, field, event, body)] kind in inc|dec|list"""
    seen = seen if seen is not None else set()
    if body is None or body.id in seen or depth > 4:
        return []
    seen.add(body.id)
    out = []
    for e in body.events:
        if e.kind == "call":
            if e.is_atomic and e.method in COUNTER_INC | COUNTER_DEC and e.args:
                fld = body.path_of_operand(e.args[0]).rsplit(".", 1)[-1]
                out.append(("inc" if e.method in COUNTER_INC else "dec", fld, e, body))
            elif e.method == "modify" and e.callee.startswith("fibre::internal::left_right"):
                fld = body.path_of_operand(e.args[0]).rsplit(".", 1)[-1] if e.args else "?"
                out.append(("list", fld, e, body))
            tgt = P.body(e.callee_resolved)
            if tgt is not None and tgt.id.startswith("fibre::"):
                out.extend(counter_ops(P, common.effective_body(P, tgt), depth + 1, seen))
        elif e.kind == "assign":
            r = e.data["r"]
            # guard.sender_count += 1  ==>  tmp = AddWithOverflow(copy place, 1); place = move tmp.0
            if r["k"] == "bin" and r["op"] in ("AddWithOverflow", "SubWithOverflow", "Add", "Sub", "AddUnchecked", "SubUnchecked"):
                pa = mir.op_place(r["a"])
                cb = body.const_of_operand(r["b"])
                if pa is not None and pa[1] and cb is not None and cb.get("v") == 1:
                    fld = body.path_of_place(pa).rsplit(".", 1)[-1]
                    if any(k in fld for k in ("count", "senders", "receivers", "handles")):
                        out.append(("inc" if r["op"].startswith("Add") else "dec", fld, e, body))
    return out


def result_is_tested(body, ev, field):
    """Is the outcome of decrement `ev` (or a re-read of `field`) compared in a branch of `body`?"""
    for blk in range(len(body.blocks)):
        if body.is_cleanup(blk):
            continue
        s = body.switch_source(blk)
        if not s:
            continue
        if s["kind"] == "cmp":
            for side in (s["a"], s["b"]):
                d = body.def_event_of_operand(side)
                if d is ev:
                    return True
                pth = origin(body, side)
                if pth.endswith("." + field) or pth == field:
                    return True
                if d is not None and d.kind == "call" and d.is_atomic and d.args and body.path_of_operand(d.args[0]).endswith(field):
                    return True
        elif s["kind"] == "call" and s["event"] is ev:
            return True
    return False


def clause2(P, res, hs):
    rid = "C04-2"
    res.rule(rid, "count handles, act on the last: every handle type that is Clone registers the clone in shared state "
                  "(counter increment or cursor-list insertion) and its Drop/close path performs the matching "
                  "deregistration whose outcome is tested by a branch before the side is disconnected")
    for h in sorted(hs.values(), key=lambda h: h.path):
        if not h.is_clone:
            continue
        cb = common.trait_method_body(P, h.path, "core::clone::Clone", "clone")
        db = common.drop_body(P, h.path)
        key = h.path
        where = f"{cb.file}:{cb.line}" if cb else ""
        if cb is None or db is None:
            res.unclassified(rid, key, "Clone handle without clone/drop body in the fact base", where=where)
            continue
        incs = [o for o in counter_ops(P, cb) if o[0] in ("inc", "list")]
        decs = [o for o in counter_ops(P, db) if o[0] in ("dec", "list")]
        if not incs:
            res.violated(rid, key, "Clone creates a second handle without registering it in shared state (no counter increment, "
                         "no cursor registration): the close path cannot tell the last handle from any other, so closing or dropping "
                         "one clone acts for all", where=where,
                         witness=[f"clone body {cb.id} and its fibre callees contain no fetch_add / `count += 1` / list insertion"])
            continue
        ok = False
        wit = []
        for kind, fld, ev, b in incs:
            for k2, f2, e2, b2 in decs:
                if f2 != fld:
                    continue
                if kind == "list" and k2 == "list":
                    ok = True
                    wit.append(f"cursor list `{fld}` modified in clone ({ev.loc}) and in close path ({e2.loc})")
                elif kind == "inc" and k2 == "dec":
                    if result_is_tested(b2, e2, f2):
                        ok = True
                        wit.append(f"`{fld}` incremented at {ev.loc}; decremented at {e2.loc} in {b2.id} and the outcome is branched on")
                    else:
                        wit.append(f"`{fld}` decremented at {e2.loc} in {b2.id} but the outcome is never tested")
        if ok:
            res.holds(rid, key, wit[0], where=where, witness=wit, obligations=2)
        else:
            res.violated(rid, key, "clone registers the handle but the Drop/close path has no tested matching deregistration: "
                         + "; ".join(wit or [f"incremented {sorted(set(i[1] for i in incs))}, decremented {sorted(set(d[1] for d in decs))}"]),
                         where=where, witness=wit)


def clause3(P, res, hs):
    rid = "C04-3"
    res.rule(rid, "conversions keep the closed state: in every to_sync/to_async the `closed` field of the handle that is "
                  "constructed is data-derived from `self.closed` (not a fresh `false`)")
    for h in sorted(hs.values(), key=lambda h: h.path):
        for m in P.methods_of(h.path, inherent_only=True):
            if m.name not in ("to_sync", "to_async"):
                continue
            key = m.id
            where = f"{m.file}:{m.line}"
            aggs = find_handle_aggregates(P, hs, m)
            if not aggs:
                res.unclassified(rid, key, "conversion constructs no handle aggregate that the rule can see", where=where)
                continue
            bad = []
            good = []
            for b, e, r in aggs:
                fields = r["fields"]
                if "closed" not in fields:
                    continue
                op = r["ops"][fields.index("closed")]
                o = origin(b, op)
                if b is m and o == "self.closed":
                    good.append(f"{e.loc}: closed <- {o}")
                else:
                    bad.append(f"{e.loc}: {r['adt'].rsplit('::',1)[-1]}.closed <- {o}" + ("" if b is m else f" (in helper {b.id})"))
            # idiom: build through a constructor helper, then copy the flag: `converted.closed.store(self.closed.load(..))`
            copies = [e for e in m.calls() if e.is_atomic and e.method == "store" and len(e.args) > 1 and m.path_of_operand(e.args[0]).endswith(".closed")
                      and not m.path_of_operand(e.args[0]).startswith("self.") and origin(m, e.args[1]) == "self.closed"]
            if bad and copies and all("(in helper" in x for x in bad):
                from rules import cachelib
                if cachelib.all_paths_pass(m, [(0, 0)], [x.pos for x in copies]):
                    good.append(f"{copies[0].loc}: new handle's closed <- self.closed (stored after construction)")
                    bad = []
            if bad:
                res.violated(rid, key, "conversion re-opens a closed handle: the new handle's `closed` does not come from `self.closed` — "
                             + bad[0] + "; the converted handle accepts operations again and its Drop decrements the handle count a second time",
                             where=where, witness=bad)
            elif good:
                res.holds(rid, key, good[0], where=where, witness=good)
            else:
                res.unclassified(rid, key, "handle aggregate without a `closed` field", where=where)


def closed_test_edges(body, hpath="self"):
    """Edges on which this call won the right to close (flag observed open and set):
    swap(true)==false, compare_exchange(false,true) Ok / is_ok()==true, plain bool read false."""
    edges, gates = [], []
    cp = hpath + ".closed"
    for blk in range(len(body.blocks)):
        if body.is_cleanup(blk):
            continue
        s = body.switch_source(blk)
        if not s:
            continue
        lab = None
        if s["kind"] == "call":
            e = s["event"]
            a0 = body.path_of_operand(e.args[0]) if e.args else ""
            if e.is_atomic and e.method in ("swap", "load") and a0 == cp:
                lab = "true" if s.get("neg") else "false"
            elif e.method in ("is_ok", "is_err") and e.args:
                d = body.producer_call(e.args[0])
                if d is not None and d.kind == "call" and d.is_atomic and d.method.startswith("compare_exchange") and d.args and origin(body, d.args[0]) == cp:
                    want_true = (e.method == "is_ok")
                    if s.get("neg"):
                        want_true = not want_true
                    lab = "true" if want_true else "false"
        elif s["kind"] == "discr":
            d = s.get("def")
            if d is not None and d.kind == "call" and d.is_atomic and d.method.startswith("compare_exchange") and d.args and origin(body, d.args[0]) == cp:
                lab = "Ok"
        elif s["kind"] == "place" and s["path"] == cp:
            lab = "true" if s.get("neg") else "false"
        if lab:
            edges.extend(body.edges_by_label(blk).get(lab, []))
            gates.append((blk, lab))
    return edges, gates


def registration_cleanup_region(body, hpath="self"):
    """Positions executed only when `<hpath>.is_registered` was read true: withdrawing the handle's own
    stream-waiter registration is not a close action."""
    edges = []
    for blk in range(len(body.blocks)):
        if body.is_cleanup(blk):
            continue
        s = body.switch_source(blk)
        if s and s["kind"] == "place" and s["path"] == hpath + ".is_registered":
            edges.extend(body.edges_by_label(blk).get("false" if s.get("neg") else "true", []))
    if not edges:
        return set()
    all_reach = body.entry_reach_set()
    return all_reach - body.entry_reach_set(removed_edges=frozenset(edges))


def close_uses(P, body, hpath="self"):
    out = []
    exempt = registration_cleanup_region(body, hpath)
    for e in body.calls():
        if e.callee in mir.TRANSPARENT_METHODS:
            continue
        if e.pos in exempt:
            continue
        if common.CLEANUP_METHODS.match(e.method or "") and e.callee.startswith("fibre::"):
            continue
        paths = [body.path_of_operand(a) for a in e.args]
        if any(p == hpath for p in paths):
            tgt = P.body(e.callee_resolved)
            if tgt is not None and tgt.name not in ("close",):
                out.append((e, f"calls {tgt.id}"))
            continue
        if any(p.startswith(hpath + ".") and not p.startswith(hpath + ".closed") for p in paths):
            out.append((e, f"uses {[p for p in paths if p.startswith(hpath + '.')][0]}"))
    return out


def clause4(P, res, hs):
    rid = "C04-4"
    res.rule(rid, "Drop closes once: every handle type has Drop; in Drop::drop and in close(), every action on shared "
                  "state is on the edge where the handle's own `closed` flag was observed open and set "
                  "(swap/compare_exchange/read), so a second close or a drop after close does nothing")
    for h in sorted(hs.values(), key=lambda h: h.path):
        db = common.drop_body(P, h.path)
        if db is None:
            res.violated(rid, h.path + "::drop", "handle type has no Drop impl: dropping the last handle never disconnects the channel")
            continue
        bodies = [("drop", db)]
        for m in P.methods_of(h.path, inherent_only=True):
            if m.name == "close":
                bodies.append(("close", m))
        for nm, b in bodies:
            key = b.id
            where = f"{b.file}:{b.line}"
            uses = close_uses(P, b)
            edges, gates = closed_test_edges(b)
            # delegating to self.close() is a gate by itself (close is its own instance)
            delegates = [e for e in b.calls() if e.method == "close" and e.args and b.path_of_operand(e.args[0]) == "self"]
            if nm == "drop" and delegates and not uses:
                res.holds(rid, key, "Drop delegates to close()", where=where, witness=[f"{delegates[0].loc}: self.close()"])
                continue
            if not uses:
                res.violated(rid, key, f"{nm} performs no close action on shared state", where=where)
                continue
            if not edges:
                res.violated(rid, key, f"{nm} acts on shared state without testing-and-setting the handle's `closed` flag: {uses[0][1]} at {uses[0][0].loc}",
                             where=where, witness=[f"{e.loc}: {w}" for e, w in uses])
                continue
            reach = b.entry_reach_set(removed_edges=frozenset(edges))
            bad = [(e, w) for e, w in uses if e.pos in reach]
            if bad:
                res.violated(rid, key, f"{nm}: close action reachable without having won the closed flag: {bad[0][1]} at {bad[0][0].loc}",
                             where=where, witness=[f"{e.loc}: {w}" for e, w in bad])
            else:
                res.holds(rid, key, f"{len(uses)} close action(s) behind {len(gates)} flag test(s)", where=where, obligations=len(uses),
                          witness=[f"bb{g[0]} edge {g[1]}" for g in gates] + [f"{e.loc}: {w}" for e, w in uses[:4]])


ERR_ADTS = re.compile(r"error::(RecvError|TryRecvError|RecvErrorTimeout)$|RecvTimeoutOutcome$")
LIVE_CALLS = re.compile(r"^(senders_alive|sender_count)$")
LIVE_FIELDS = re.compile(r"(producer_dropped|sender_count|senders|is_disconnected)$")
DEQ_CALLS = re.compile(r"^(pop|read_batch|deq_once|deq_run|drain_straggler|pop_node|pop_batch|pop_locked|pop_front|pop_receiver|try_recv_core|try_recv_batch_core|"
                       r"try_recv_internal|try_recv_batch_internal|try_recv|take|drain)$")
LOCK_FAMILIES = re.compile(r"^fibre::(mpmc_v2::core::|mpmc_v2::sync_impl::|internal::rendezvous::|spmc::topic::mailbox::|<spmc::topic::mailbox::)")
LOCKED_OBS = re.compile(r"^(len|is_empty|drain_into|pop|pop_front|pop_receiver)$")
# bodies in which a waiter-state verdict of the closer is final (no buffer behind the waiter, or the state byte itself says whether an item was delivered)
STATE_VERDICT_FINAL = re.compile(r"^fibre::(internal::rendezvous::|<?mpmc_v2::rendezvous::|<?mpsc::rendezvous::|<?spsc::rendezvous::|<?mpmc_v2::unbounded::|mpmc_v2::unbounded::)")
C5_SKIP = {
    r"^fibre::oneshot::": "oneshot: a single value guarded by a state machine (SENT/TAKEN/CLOSED); there is no queue to re-drain — decided by C01-3/C03",
    r"^fibre::<?error::": "error type helpers",
}


def clause5(P, res):
    rid = "C04-5"
    res.rule(rid, "drain then Disconnected: wherever a receive form decides `Disconnected` itself (not on its own closed flag, not by forwarding a callee's "
                  "Disconnected), every path from the last observation that no sender is alive to that decision passes another dequeue attempt (the "
                  "straggler re-drain); in the lock-based cores the dequeue attempt, the liveness read and the decision share one critical section")
    n = 0
    for b in P.bodies.values():
        if not b.id.startswith("fibre::") or not common.in_scope(b.id) or "::tests::" in b.id:
            continue
        if any(re.search(rx, b.id) for rx in C5_SKIP):
            continue
        cons = [e for e in b.events if e.kind == "assign" and e.data["r"]["k"] == "agg" and e.data["r"]["variant"] == "Disconnected" and ERR_ADTS.search(e.data["r"]["adt"])]
        if not cons:
            continue
        # edges on which the decision is somebody else's
        fwd_edges, closed_edges = [], []
        state_obs = []
        for blk in range(len(b.blocks)):
            if b.is_cleanup(blk):
                continue
            t = b.term(blk)
            if t["k"] == "switch" and t.get("on", {}).get("kind") == "discr":
                fwd_edges += b.edges_by_label(blk).get("Disconnected", [])
            # decisions read off the waiter's own state byte are the closer's decision (it stored the terminal state under the
            # channel lock when the last sender left). Where the channel has no buffer (rendezvous) that verdict is final and merely forwarded;
            # where it has one, "the last sender left" says nothing about what is still buffered (another waiter may have been woken for a
            # queued value and not run yet): the state read counts as a sender-liveness observation and the re-drain obligation applies.
            st_loads = mir.derives_from_call(b, t["o"], lambda x: x.is_atomic and x.method == "load" and bool(x.args)
                                             and re.search(r"(^|\.)(state|done_flag)$", b.path_of_operand(x.args[0])) is not None) if t["k"] == "switch" else []
            if st_loads:
                if STATE_VERDICT_FINAL.search(b.id):
                    fwd_edges += [(blk, x) for x in b.succ[blk]]
                else:
                    state_obs.extend(st_loads)
            s = b.switch_source(blk)
            if s and s["kind"] == "call" and s["event"].method == "load" and s["event"].args and re.search(r"\.closed$|closed_flag$", b.path_of_operand(s["event"].args[0])):
                closed_edges += b.edges_by_label(blk).get("false" if s.get("neg") else "true", [])
            if s and s["kind"] == "place" and re.search(r"\.closed$", s["path"]):
                closed_edges += b.edges_by_label(blk).get("false" if s.get("neg") else "true", [])
        L = list({id(x): x for x in state_obs}.values())
        for e in b.events:
            if e.kind == "call" and LIVE_CALLS.match(e.method or "") and e.callee.startswith("fibre::"):
                L.append(e)
            elif e.kind == "call" and e.is_atomic and e.method == "load" and e.args and LIVE_FIELDS.search(b.path_of_operand(e.args[0])):
                L.append(e)
        # plain field reads under a lock: `core.sender_count == 0`, `guard.is_disconnected`
        for blk in range(len(b.blocks)):
            if b.is_cleanup(blk):
                continue
            s = b.switch_source(blk)
            if s and s["kind"] == "cmp":
                for side in (s["a"], s["b"]):
                    pl = mir.op_place(side)
                    if pl is not None:
                        src = b.single_def(pl[0])
                        if src is not None and src.kind == "assign" and src.data["r"]["k"] == "use":
                            q = mir.op_place(src.data["r"]["o"])
                            if q is not None and LIVE_FIELDS.search(b.path_of_place(q)):
                                L.append(src)
            if s and s["kind"] == "place" and LIVE_FIELDS.search(s["path"]):
                ev = b.event_at((blk, len(b.blocks[blk]["s"])))
                if ev is not None:
                    L.append(ev)
        D = [e for e in b.calls() if DEQ_CALLS.match(e.method or "") and (e.callee.startswith("fibre::") or "VecDeque" in e.callee or "Option" in e.callee and False)]
        D += [e for e in b.calls() if e.is_atomic and e.method == "load" and e.args and re.search(r"\.head$", b.path_of_operand(e.args[0])) and "spmc" in b.id]
        locky = bool(LOCK_FAMILIES.search(b.id))
        if locky:
            D += [e for e in b.calls() if LOCKED_OBS.match(e.method or "") and (e.callee.startswith("fibre::") or "VecDeque" in e.callee)]
        if b.kind == "closure" and not L and not D:
            for i, c in enumerate(cons):
                res.holds(rid, f"{b.id}:Disconnected#{i}", "error-mapping closure (forwards a callee's failure)", where=c.loc, nontrivial=False)
            continue
        for i, c in enumerate(cons):
            key = f"{b.id}:Disconnected#{i}"
            if closed_edges and b.edges_dominate(closed_edges, c.pos):
                res.holds(rid, key, "on the handle's own closed edge (C04-1)", where=c.loc, nontrivial=False)
                continue
            if fwd_edges and b.edges_dominate(fwd_edges, c.pos):
                res.holds(rid, key, "forwards a callee's Disconnected", where=c.loc, nontrivial=False)
                continue
            n += 1
            reachL = [l for l in L if c.pos in b.pos_reach_set(l.pos)]
            if not reachL:
                res.unclassified(rid, key, f"Disconnected decided at {c.loc} without a recognisable sender-liveness observation in this function", where=c.loc)
                continue
            so = [l for l in reachL if any(l is x for x in state_obs)]
            so_bad = [l for l in so if c.pos in b.pos_reach_set(l.pos, removed=frozenset(d.pos for d in D))]
            if so_bad:
                res.violated(rid, key, f"Disconnected at {c.loc} is decided from the waiter state the closer stored (read at {so_bad[0].loc}) without another dequeue attempt: the "
                             "last sender leaving says nothing about values still buffered (another waiter was woken for them and has not run yet) — they are abandoned, "
                             "and a later receive on the same handle obtains them after Disconnected", where=c.loc)
                continue
            if locky:
                doms = [d for d in D if b.dominated_by_any(c.pos, {d.pos})]
                # ... in the same critical section: a lock acquisition whose guard covers both the observation and the decision
                acqs = [x for x in b.calls() if x.method == "lock" and x.args]
                if acqs:
                    same = []
                    for a in acqs:
                        held_a = mir.guards_held(b, [(a, None)])[0]
                        if c.pos in held_a:
                            same += [d for d in doms if d.pos in held_a and d.pos in b.pos_reach_set(a.pos)]
                    if any(c.pos in mir.guards_held(b, [(a, None)])[0] for a in acqs):
                        doms = same
                if doms:
                    res.holds(rid, key, f"lock-based core: dequeue attempt at {doms[-1].loc} precedes the decision in the same critical section", where=c.loc)
                else:
                    res.violated(rid, key, f"Disconnected is decided at {c.loc} without a dequeue attempt before it: buffered values are abandoned", where=c.loc)
                continue
            bad = None
            for l in reachL:
                others = frozenset(x.pos for x in L if x is not l) | frozenset(d.pos for d in D)
                if c.pos in b.pos_reach_set(l.pos, removed=others):
                    bad = l
                    break
            if bad is None:
                res.holds(rid, key, f"every path from the liveness read(s) {[l.loc.rsplit(':', 1)[-1] for l in reachL]} to the decision re-drains", where=c.loc,
                          witness=[f"liveness {l.loc}" for l in reachL] + [f"dequeue {d.loc}" for d in D[:6]])
            else:
                res.violated(rid, key, f"a path from the sender-liveness read at {bad.loc} reaches `Disconnected` at {c.loc} without another dequeue attempt: a value published by the last "
                             "sender just before it left (after this receiver's previous empty check) is lost", where=c.loc)
    if n < 25:
        res.violated(rid, "disconnect-decisions", f"expected >= 25 self-decided Disconnected sites, found {n}")


PEER_LIVE = re.compile(r"(receiver_dropped|consumer_dropped|receiver_count|is_disconnected)$")


def peer_liveness_reads(b):
    """events of body b that observe whether the receiving side is still there"""
    out = []
    for e in b.calls():
        a0 = b.path_of_operand(e.args[0]) if e.args else ""
        if e.is_atomic and e.method == "load" and PEER_LIVE.search(a0):
            out.append(e)
        elif e.method in ("receivers_alive", "receiver_alive", "has_receivers", "producer_space"):
            out.append(e)
        elif e.method == "is_closed" and re.search(r"Sender", e.callee_full or e.callee):
            out.append(e)
        elif e.method == "is_empty" and "tails" in a0:
            out.append(e)
    for e in b.events:
        if e.kind == "assign" and e.data["r"]["k"] in ("use", "bin"):
            for k in ("o", "a", "b"):
                o = e.data["r"].get(k)
                pl = mir.op_place(o) if isinstance(o, dict) else None
                if pl and pl[1] and PEER_LIVE.search(b.path_of_place(pl)):
                    out.append(e)
    return out


def send_commits(b):
    """value-carrying commits of the send side"""
    out = []
    for e in b.calls():
        m = e.method or ""
        if m in ("fulfill_receiver", "write_slot", "resolve_run", "deliver", "write_batch_unchecked"):
            out.append(e)
        elif m == "publish" and re.search(r"MpscShared|UnboundedShared", e.callee):
            out.append(e)
        elif m == "push" and "spsc::shared::Ring" in e.callee:
            out.append(e)
        elif m == "push_back" and "MpmcChannelInternal" in e.callee:
            out.append(e)
        elif m == "write" and "MaybeUninit" in e.callee and b.id.startswith("fibre::spmc::ring_buffer::SpmcShared"):
            out.append(e)
    return out


def clause6(P, res):
    rid = "C04-6"
    res.rule(rid, "no commit without looking for the receiver: every value-carrying commit of a send form (slot write, ring push, chain publish, rendezvous hand-off, mailbox "
                  "delivery) is dominated by an observation of receiver liveness (receiver_dropped / consumer_dropped / receiver_count / receivers_alive() / the cursor list "
                  "being empty) in the same function, or every call chain leading to it (<= 4 frames) is — otherwise a send after the last receiver is gone (or closed with "
                  "a receive still parked) succeeds instead of failing with Closed")
    callers = {}
    for b in P.bodies.values():
        if "::tests::" in b.id or not b.id.startswith("fibre::"):
            continue
        for e in b.calls():
            if e.callee_resolved:
                callers.setdefault(e.callee_resolved, []).append((b, e))
    memo = {}

    def guarded(b, pos, depth, stack):
        live = memo.get(b.id)
        if live is None:
            live = memo[b.id] = peer_liveness_reads(b)
        if any(b.dominated_by_any(pos, {l.pos}) for l in live):
            return True, []
        if depth >= 4:
            return False, [b.id]
        cs = [(cb, ce) for cb, ce in callers.get(b.id, []) if cb.id not in stack]
        if not cs:
            return False, [b.id]
        for cb, ce in cs:
            ok, tr = guarded(cb, ce.pos, depth + 1, stack + (b.id,))
            if not ok:
                return False, [b.id] + tr
        return True, []

    n = 0
    for b in P.bodies.values():
        if not b.id.startswith("fibre::") or "::tests::" in b.id or not common.in_scope(b.id) or (b.impl_trait or "").endswith("Drop"):
            continue
        for k, cmt in enumerate(send_commits(b)):
            n += 1
            key = f"{b.id}:{cmt.method}#{k}"
            ok, tr = guarded(b, cmt.pos, 0, ())
            if ok:
                res.holds(rid, key, "commit behind a receiver-liveness observation", where=cmt.loc)
            else:
                res.violated(rid, key, f"the {cmt.method} at {cmt.loc} can be reached through {' <- '.join(tr)} without any observation of receiver liveness: the value is handed "
                             "over / buffered although every receiver may be gone, and the send reports success instead of Closed", where=cmt.loc, witness=tr)
    if n < 35:
        res.violated(rid, "send-commit-sites", f"expected >= 35 send-side commit sites, found {n}")


def clause7(P, res):
    rid = "C04-7"
    res.rule(rid, "oneshot: Disconnected is decided on a fresh look at the slot: where the receive path has seen the state EMPTY and then reads sender_count == 0, every "
                  "path from that read to a `Disconnected` result passes a branch on a *later* observation of the state (the outcome of the EMPTY->CLOSED "
                  "compare_exchange, or a reload) — the last sender may have completed its send between the two reads, and the value must be handed out before "
                  "Disconnected is ever reported")
    n = 0
    for b in P.bodies_in("fibre::oneshot::core::OneShotShared::<T>::"):
        cons = [e for e in b.events if e.kind == "assign" and e.data["r"]["k"] == "agg" and e.data["r"]["variant"] == "Disconnected"]
        if not cons:
            continue
        # edges on which the last state observation said EMPTY
        empty_edges = []
        for blk in range(len(b.blocks)):
            s = None if b.is_cleanup(blk) else b.switch_source(blk)
            if s and s["kind"] == "cmp" and s["op"] in ("Eq", "Ne"):
                ks = [b.const_of_operand(s["a"]), b.const_of_operand(s["b"])]
                if any(k is not None and str(k.get("path", "")).endswith("STATE_EMPTY") for k in ks):
                    lab = "true" if (s["op"] == "Eq") != bool(s.get("neg")) else "false"
                    empty_edges += b.edges_by_label(blk).get(lab, [])
        counts = [e for e in b.calls() if e.is_atomic and e.method == "load" and e.args and b.path_of_operand(e.args[0]).endswith("sender_count")]
        for li, l in enumerate(counts):
            if not (empty_edges and b.edges_dominate(empty_edges, l.pos)):
                continue
            n += 1
            key = f"{b.id}:sender_count#{li}"
            after = b.pos_reach_set(l.pos)
            later_state_ops = [e for e in b.calls() if e.is_atomic and e.args and b.path_of_operand(e.args[0]).endswith(".state") and e.pos in after
                               and e.method in ("load", "compare_exchange", "compare_exchange_weak", "swap", "fetch_or", "fetch_and")]
            # a later call back into the receive path looks at the slot afresh: its verdict is its own (and is itself an instance of this rule)
            later_state_ops += [e for e in b.calls() if e.pos in after and (e.callee_resolved or "").startswith("fibre::oneshot::core::OneShotShared::<T>::") and e.method in ("try_recv", "poll_recv")]
            fresh_edges = []
            for blk in range(len(b.blocks)):
                if b.is_cleanup(blk):
                    continue
                t = b.term(blk)
                if t["k"] != "switch":
                    continue
                if t.get("on", {}).get("kind") == "discr":
                    srcs = [b.def_event_of_operand({"c": [t["on"]["p"][0], []]})]
                    evs, _, _ = mir.operand_sources(b, {"c": [t["on"]["p"][0], []]})
                    srcs += evs
                else:
                    srcs, _, _ = mir.operand_sources(b, t["o"])
                if any(x in later_state_ops for x in srcs if x is not None):
                    fresh_edges += [(blk, x) for x in b.succ[blk]]
            reach = b.pos_reach_set(l.pos, removed_edges=frozenset(fresh_edges))
            hit = [c0 for c0 in cons if c0.pos in reach]
            if hit:
                res.violated(rid, key, f"`Disconnected` at {hit[0].loc} is returned on the strength of a state read taken *before* the sender_count read at {l.loc}: if the last "
                             "sender sent in between, the receiver reports Disconnected and a later call still hands out the value", where=hit[0].loc)
            else:
                res.holds(rid, key, "Disconnected only behind a branch on a state observation made after the sender_count read", where=l.loc)
    if n < 2:
        res.violated(rid, "oneshot-decisions", f"expected >= 2 EMPTY-then-sender_count decisions in the oneshot core, found {n}")


HANDLE_COUNTER = re.compile(r"(^|\.)(sender_count|receiver_count|senders|receivers|handle_count)$")


def clause8(P, res):
    rid = "C04-8"
    res.rule(rid, "handle counters move by read-modify-write only, and the last-handle decision is the RMW's own result: outside channel constructors nothing `store`s to "
                  "sender_count / receiver_count, and no close path decides `last` from a separate `load` that it follows with its own decrement (check-then-act: two "
                  "handles dropped together both see `> 1`, both just decrement, and nobody disconnects the other side)")
    n = 0
    for b in P.bodies.values():
        if not b.id.startswith("fibre::") or "::tests::" in b.id or not common.in_scope(b.id):
            continue
        ops = [e for e in b.calls() if e.is_atomic and e.args and HANDLE_COUNTER.search(b.path_of_operand(e.args[0]))]
        if not ops:
            continue
        ctor = re.search(r"::(new|channel|channel_async|bounded|bounded_async|unbounded|unbounded_async|oneshot|with_capacity|from_parts)$", b.id) is not None
        for e in ops:
            n += 1
            fld = b.path_of_operand(e.args[0]).rsplit(".", 1)[-1]
            if e.method == "store" and not ctor:
                res.violated(rid, f"{b.id}:{fld}.store", f"`{fld}` is overwritten by a plain store at {e.loc}: a concurrent clone/drop of another handle between the deciding read and "
                             "this store is lost", where=e.loc)
        decs = [e for e in ops if e.method == "fetch_sub"]
        loads = [e for e in ops if e.method == "load"]
        for dcr in decs:
            fld = b.path_of_operand(dcr.args[0]).rsplit(".", 1)[-1]
            # a load of the same counter whose outcome is branched on and that dominates the decrement: the decision was taken before the decrement
            for l in loads:
                if b.path_of_operand(l.args[0]).rsplit(".", 1)[-1] != fld or not b.dominated_by_any(dcr.pos, {l.pos}):
                    continue
                branched = False
                for blk in range(len(b.blocks)):
                    t = None if b.is_cleanup(blk) else b.term(blk)
                    if t and t["k"] == "switch" and t.get("on", {}).get("kind") != "discr" and l in mir.operand_sources(b, t["o"])[0]:
                        branched = True
                if branched:
                    res.violated(rid, f"{b.id}:{fld}:check-then-act", f"the last-handle decision is taken from the load at {l.loc} and the decrement follows at {dcr.loc}: two closers can "
                                 "both read `more than one` and neither disconnects", where=dcr.loc)
    if n < 34:
        res.violated(rid, "counter-sites", f"expected >= 34 atomic operations on handle counters, found {n}")
    else:
        res.holds(rid, "counter-sites", f"{n} atomic operations on handle counters examined", where="channels/src", obligations=n)


def clause9(P, res, hs):
    rid = "C04-9"
    res.rule(rid, "a counted clone is born open: in every Clone::clone of a counted handle type, a handle built on a path that also registers it in shared state "
                  "(counter increment / cursor insertion) has `closed` = the constant false — a clone that is counted but born closed (flag copied from a closed source) "
                  "never wins the flag in its Drop, never gives its count back, and the side can no longer disconnect")
    n = 0
    for h in sorted(hs.values(), key=lambda h: h.path):
        if not h.is_clone:
            continue
        cb = common.trait_method_body(P, h.path, "core::clone::Clone", "clone")
        if cb is None:
            continue
        regs = [o for o in counter_ops(P, cb) if o[0] in ("inc", "list")]
        aggs = find_handle_aggregates(P, hs, cb)
        if not regs or not aggs:
            continue
        n += 1
        key = h.path
        bad = []
        for b, e, r in aggs:
            if "closed" not in r["fields"]:
                continue
            op = r["ops"][r["fields"].index("closed")]
            c = b.const_of_operand(op)
            pc = b.producer_call(op)
            if c is None and pc is not None and pc.method == "new" and pc.args:
                c = b.const_of_operand(pc.args[0])
            val = None if c is None else c.get("v")
            if val == 0:
                continue
            # born closed (or flag of unknown value): must not share a path with a registration made in the clone body itself
            if b is not cb:
                bad.append(f"{e.loc}: helper {b.name} builds the handle with closed <- {b.path_of_operand(op)}")
                continue
            top = [ev for k, f, ev, bb in regs if bb is cb] + [x for x in cb.calls() if any(ev for k, f, ev, bb in regs if bb is not cb) and P.body(x.callee_resolved) is not None
                                                               and any(bb.id == x.callee_resolved or True for k, f, ev, bb in regs if bb is not cb) and x.callee_resolved.startswith("fibre::")
                                                               and counter_ops(P, P.body(x.callee_resolved))]
            shared_path = [t for t in top if cb.pos_reaches(t.pos, {e.pos}) or cb.pos_reaches(e.pos, {t.pos})]
            if shared_path:
                bad.append(f"{e.loc}: closed <- {b.path_of_operand(op)} on a path that registers the clone at {shared_path[0].loc}")
        if bad:
            res.violated(rid, key, "clone is counted in shared state but can be born closed: " + bad[0] + "; its Drop/close never wins the flag, so the count it took is never "
                         "given back (receivers wait for a disconnect that cannot happen)", where=f"{cb.file}:{cb.line}", witness=bad)
        else:
            res.holds(rid, key, "every counted clone starts with closed = false", where=f"{cb.file}:{cb.line}")
    if n < 15:
        res.violated(rid, "clone-bodies", f"expected >= 15 counted Clone impls of handle types, found {n}")


def clause10(P, res, hs):
    rid = "C04-10"
    res.rule(rid, "a clone of a closed handle does not revive its side: in every Clone::clone of a counted handle type the registration in shared state (counter increment / "
                  "cursor insertion) is control-dependent on the source handle's closed flag having been read as open — otherwise closing the last sender and then cloning "
                  "that closed handle takes the count from 0 back to 1: a receiver that already observed Disconnected obtains values afterwards (and a send that failed "
                  "with Closed succeeds again)")
    n = 0
    for h in sorted(hs.values(), key=lambda h: h.path):
        if not h.is_clone:
            continue
        cb = common.trait_method_body(P, h.path, "core::clone::Clone", "clone")
        if cb is None:
            continue
        db = common.drop_body(P, h.path)
        dec_fields = {o[1] for o in counter_ops(P, db) if o[0] in ("dec", "list")} if db is not None else set()
        regs = [o for o in counter_ops(P, cb) if o[0] in ("inc", "list") and o[1] in dec_fields]
        if not regs:
            continue
        n += 1
        # top-level events of the clone body that perform or lead to the registration (the counter that the Drop path gives back)
        top = [ev for k, f, ev, bb in regs if bb is cb]
        for x in cb.calls():
            tgt = P.body(x.callee_resolved)
            if tgt is not None and tgt.id.startswith("fibre::"):
                inner = [o for o in counter_ops(P, common.effective_body(P, tgt)) if o[0] in ("inc", "list") and o[1] in dec_fields]
                if inner:
                    top.append(x)
        # plain `guard.sender_count += 1` under a lock is a field write, not a call
        open_edges = []
        for blk in range(len(cb.blocks)):
            if cb.is_cleanup(blk):
                continue
            ss = cb.switch_source(blk)
            if not ss:
                continue
            if ss["kind"] == "call" and ss["event"].is_atomic and ss["event"].method == "load" and ss["event"].args and origin(cb, ss["event"].args[0]) == "self.closed":
                open_edges += cb.edges_by_label(blk).get("true" if ss.get("neg") else "false", [])
            elif ss["kind"] == "place" and ss["path"] == "self.closed":
                open_edges += cb.edges_by_label(blk).get("true" if ss.get("neg") else "false", [])
        bad = [t for t in top if not (open_edges and cb.edges_dominate(open_edges, t.pos))]
        key = h.path
        if not top:
            res.unclassified(rid, key, "registration of the clone not located at the top level of the clone body", where=f"{cb.file}:{cb.line}")
        elif bad:
            res.violated(rid, key, f"clone registers the new handle at {bad[0].loc} without having found the source handle open: cloning a handle that was closed (and was the last "
                         "of its side) revives a side whose disconnect the other side has already observed", where=bad[0].loc)
        else:
            res.holds(rid, key, "registration only behind the not-closed edge of self.closed", where=top[0].loc)
    if n < 15:
        res.violated(rid, "clone-bodies", f"expected >= 15 counted Clone impls of handle types, found {n}")


def clause11(P, res):
    rid = "C04-11"
    res.rule(rid, "oneshot observers look at the sender count first: in every oneshot function (outside the receive core, which C04-7 decides) that combines the slot state "
                  "with sender_count to answer 'closed?', every load of the state is dominated by the load of sender_count — a sender stores SENT before it gives its "
                  "count back, so a state read that follows a count of zero is final, while the other order can pair a stale EMPTY with a fresh zero and answer 'closed' "
                  "with the value still waiting")
    n = 0
    for b in P.bodies.values():
        if not b.id.startswith("fibre::oneshot::") or "::tests::" in b.id or re.search(r"OneShotShared::<T>::(try_recv|poll_recv|decrement_senders|send)$", b.id):
            continue
        st = [e for e in b.calls() if e.is_atomic and e.method == "load" and e.args and b.path_of_operand(e.args[0]).endswith(".state")]
        sc = [e for e in b.calls() if e.is_atomic and e.method == "load" and e.args and b.path_of_operand(e.args[0]).endswith("sender_count")]
        if not st or not sc:
            continue
        n += 1
        bad = [x for x in st if not b.dominated_by_any(x.pos, {c.pos for c in sc})]
        if bad:
            res.violated(rid, b.id, f"the state is loaded at {bad[0].loc} before sender_count ({sc[0].loc}): a send that completes between the two loads is reported as 'closed, no "
                         "value will come' although try_recv then returns the value", where=bad[0].loc)
        else:
            res.holds(rid, b.id, "sender_count is read before the state", where=st[0].loc)
    if n < 1:
        res.violated(rid, "oneshot-observers", "expected oneshot::Receiver::is_closed to combine state and sender_count, found no such body")


def run(P, ctx):
    res = Result("C04")
    res.extra["explanation"] = ("Closed-gate, last-handle, conversion, drop-once and drain-before-Disconnected clauses "
                                "evaluated on the MIR of every channel handle type of crate fibre.")
    hs = common.handles(P)
    res.extra["handles"] = sorted(hs)
    clause1(P, res, hs)
    clause2(P, res, hs)
    clause3(P, res, hs)
    clause4(P, res, hs)
    clause5(P, res)
    clause6(P, res)
    clause7(P, res)
    clause8(P, res)
    clause9(P, res, hs)
    clause10(P, res, hs)
    clause11(P, res)
    # closing one of several receiver handles destroys nothing
    res.rule("C04-13", "closing one of several cloned receiver handles takes nothing out of the channel: the close path (close / close_internal / Drop) of a Clone receiver "
                       "type contains no dequeue — a drain on close is only correct for a receiver that cannot be cloned (mpsc), where the closing handle is the last one by "
                       "type; on a shared queue it destroys values the surviving receivers were entitled to, and they then go straight to Disconnected")
    k13 = 0
    for h in sorted(hs.values(), key=lambda h: h.path):
        if not h.is_clone or not re.search(r"Receiver", h.path):
            continue
        k13 += 1
        bad = None
        for m in P.methods_of(h.path):
            if m.name not in ("close", "close_internal", "drop"):
                continue
            eff = common.effective_body(P, m)
            for e in eff.calls():
                if DEQ_CALLS.match(e.method or "") and (e.callee.startswith("fibre::")) and e.method not in ("take",):
                    bad = (m, e)
        if bad:
            res.violated("C04-13", h.path, f"{bad[0].name} of the cloneable receiver dequeues at {bad[1].loc} ({bad[1].method}): closing one handle destroys values that other live "
                         "receiver handles have not obtained yet", where=bad[1].loc)
        else:
            res.holds("C04-13", h.path, "close path takes nothing out of the queue", where="")
    if k13 < 6:
        res.violated("C04-13", "clone-receivers", f"expected >= 6 Clone receiver handle types, found {k13}")
    # a pending send learns that the last receiver left: the send-side instances of C06-6, judged for the disconnect protocol
    from rules import c06
    sub = Result("C04")
    c06.clause6(P, sub)
    res.rule("C04-12", "a send that waits finds out that the receiving side is gone: behind each lock-free waker registration of a *send* future every path to Pending re-reads "
                       "the channel state and looks at receiver liveness in between — the closer wakes only waiters that are already registered, so a receiver that leaves "
                       "just before the registration is noticed only by this look (otherwise the send stays Pending forever instead of failing with Closed) — the send-side "
                       "instances of C06-6")
    k = 0
    for i in sub.instances:
        if re.search(r"Send\w*Future", i.key):
            k += 1
            res.add("C04-12", i.key.split(":", 2)[2], i.status, i.detail, i.witness, i.nontrivial, i.obligations, i.where)
    if k < 3:
        res.violated("C04-12", "send-future-sites", f"expected >= 3 send futures with a lock-free waker registration, found {k}")
    return res
