"""C05 — no lost wakeup. DESIGN.md §4 C05."""
from report import Result
from rules import protocols as pr


def clause1(P, res, prop="C05"):
    rid = f"{prop}-1" if prop == "C05" else f"{prop}-4"
    res.rule(rid, "park protocol: at every site that parks a thread, on every path the last registration with the notifier is followed "
                  "by the protocol's barrier and a re-check of the awaited condition before the park (fence-based protocols), or re-check "
                  "and registration happen under the mutex the notifier takes and the park happens after it is released (lock-based)")
    n = 0
    for b, parks in pr.park_sites(P):
        if b.id in pr.PARK_WRAPPERS:
            continue
        spec = pr.spec_for(b.id)
        key = b.id
        where = f"{b.file}:{b.line}"
        if spec is None:
            if prop == "C05":
                res.unclassified(rid, key, f"thread parks at {parks[0].loc} in a function no protocol row covers: add a slot-table row after reading it", where=where)
            continue
        if spec.get("prop", "C05") != prop:
            continue
        n += 1
        ok, detail, wit = pr.check_site(P, b, parks, spec)
        if ok:
            res.holds(rid, key, f"[{spec['family']}] {detail}", where=where, witness=wit, obligations=len(parks) * 2)
        else:
            res.violated(rid, key, f"[{spec['family']}] {detail}", where=where, witness=wit + [spec["why"]])
    return n


def run(P, ctx):
    res = Result("C05")
    res.extra["explanation"] = "Park/notify protocol shapes at every site that blocks a thread in fibre's channels."
    clause1(P, res)
    return res
