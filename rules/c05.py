"""C05 — no lost wakeup. DESIGN.md §4 C05."""
import re

from report import Result
from rules import protocols as pr


def clause1(P, res, prop="C05"):
    rid = f"{prop}-1" if prop == "C05" else f"{prop}-4"
    res.rule(rid, "park protocol: at every site that parks a thread, on every path the last registration with the notifier is followed "
                  "by the protocol's barrier and a re-check of the awaited condition before the park (fence-based protocols), or re-check "
                  "and registration happen under the mutex the notifier takes and the park happens after it is released (lock-based)")
    n = 0
    for b, parks in pr.park_sites(P):
        if b.id in pr.PARK_WRAPPERS:
            continue
        spec = pr.spec_for(b.id)
        key = b.id
        where = f"{b.file}:{b.line}"
        if spec is None:
            if prop == "C05":
                res.unclassified(rid, key, f"thread parks at {parks[0].loc} in a function no protocol row covers: add a slot-table row after reading it", where=where)
            continue
        if spec.get("prop", "C05") != prop:
            continue
        n += 1
        ok, detail, wit = pr.check_site(P, b, parks, spec)
        if ok:
            res.holds(rid, key, f"[{spec['family']}] {detail}", where=where, witness=wit, obligations=len(parks) * 2)
        else:
            res.violated(rid, key, f"[{spec['family']}] {detail}", where=where, witness=wit + [spec["why"]])
    return n


GATE_FIELD = r"(waiter(s|_count)?|parked\w*)$"
FENCE_ROWS = {
    "fibre::internal::slab_chain::retire_node": "Acquire fence before freeing a slab whose refcount dropped to zero (reclamation, not a wake protocol)",
    "fibre::internal::slab_chain::seal_slab": "Acquire fence before freeing a sealed slab (reclamation)",
}


def clause5(P, res):
    """liveness re-check between registration and park (sync counterpart of C06-6)"""
    import re
    from rules import c06
    rid = "C05-5"
    res.rule(rid, "a parked thread has looked for a disconnect after registering: at every fence-protocol park site of a channel, between the registration with the "
                  "notifier and the park something observes whether the other side is still there (dropped flag, handle count, cursor list, or a callee that can "
                  "answer Closed/Disconnected) — the closer wakes only waiters that are already registered, so a disconnect that lands before the registration is "
                  "only noticed by this re-check")
    sr = c06.StateReads(P)
    n = 0
    for b, parks in pr.park_sites(P):
        if b.id in pr.PARK_WRAPPERS:
            continue
        spec = pr.spec_for(b.id)
        if spec is None or spec.get("prop", "C05") != "C05" or spec["kind"] != "fence":
            continue
        regs = pr._pos(b, spec["reg"])
        for k in parks:
            rs = [r for r in regs if k.pos in b.pos_reach_set(r.pos)]
            if not rs:
                continue
            n += 1
            key = f"{b.id}:park@{k.loc.rsplit(':', 1)[-1]}" if len(parks) > 1 else b.id
            live = []
            for r in rs:
                after = b.pos_reach_set(r.pos)
                for e in b.calls():
                    if e.pos == r.pos or e.pos not in after or k.pos not in b.pos_reach_set(e.pos, removed=frozenset([r.pos])):
                        continue
                    ll = False
                    if e.is_atomic and e.method != "store":
                        ll = bool(e.args and c06.LIVE6.search(b.path_of_operand(e.args[0])))
                    elif (e.callee_resolved or "").startswith("fibre::") and not (e.method or "").startswith(("register", "unregister")):
                        ll = sr(e.callee_resolved)[1]
                    if re.search(r"^((senders|receivers)_alive|is_closed|is_disconnected)$", e.method or ""):
                        ll = True
                    if e.method == "is_empty" and e.args and "tails" in b.path_of_operand(e.args[0]):
                        ll = True
                    if ll:
                        live.append(e)
                for ev in b.events:
                    if ev.kind == "assign" and ev.data["r"]["k"] in ("use", "bin") and ev.pos in after and k.pos in b.pos_reach_set(ev.pos, removed=frozenset([r.pos])):
                        for kk in ("o", "a", "b"):
                            o = ev.data["r"].get(kk)
                            pl = __import__("mir").op_place(o) if isinstance(o, dict) else None
                            if pl and pl[1] and c06.LIVE6.search(b.path_of_place(pl)):
                                live.append(ev)
            if live:
                res.holds(rid, key, f"liveness observed at {live[0].loc} between registration and park", where=k.loc)
            else:
                res.violated(rid, key, f"between registering at {rs[0].loc} and parking at {k.loc} nothing looks at whether the other side is still there: a disconnect that "
                             "happened just before the registration woke nobody, and this thread now sleeps forever", where=k.loc)
    if n < 15:
        res.violated(rid, "fence-park-sites", f"expected >= 15 fence-protocol park sites, found {n}")


def clause2(P, res):
    import re
    from rules import common
    rid = "C05-2"
    res.rule(rid, "notifier shape: every read (load/CAS) of a waiter-count or parked-flag gate is dominated by a SeqCst fence in the same function "
                  "(publish, fence, read gate — the mirror of register, fence, re-check), and every fence in the wake protocols is SeqCst")
    for b in P.bodies.values():
        if not b.id.startswith("fibre::") or not common.in_scope(b.id) or b.impl_trait == "core::fmt::Debug":
            continue
        fences = [e for e in b.calls() if e.is_fence]
        for f in fences:
            c = b.const_of_operand(f.args[0]) if f.args else None
            o = (c or {}).get("variant")
            key = f"{b.id}:fence"
            if b.id in FENCE_ROWS:
                res.holds(rid, key, FENCE_ROWS[b.id], where=f.loc, nontrivial=False)
            elif o == "SeqCst":
                res.holds(rid, key, "fence(SeqCst)", where=f.loc)
            else:
                res.violated(rid, key, f"wake-protocol fence at {f.loc} is {o}, not SeqCst: store->load ordering between publish and gate read is lost (invisible on x86 only for the store side)", where=f.loc)
        for e in b.calls():
            if e.is_atomic and e.method in ("load", "compare_exchange", "compare_exchange_weak") and e.args and not e.is_telemetry and not (e.method == "load" and b.only_formatted(e)):
                p = b.path_of_operand(e.args[0])
                if not re.search(GATE_FIELD, p.rsplit(".", 1)[-1]) or "state" in p.rsplit(".", 1)[-1]:
                    continue
                key = f"{b.id}:gate:{p.rsplit('.', 1)[-1]}"
                sq = [f for f in fences if (b.const_of_operand(f.args[0]) or {}).get("variant") == "SeqCst"]
                if sq and b.dominated_by_any(e.pos, {f.pos for f in sq}):
                    res.holds(rid, key, f"gate read at {e.loc} after fence(SeqCst) at {sq[0].loc}", where=e.loc)
                else:
                    res.violated(rid, key, f"gate `{p}` is read at {e.loc} without a preceding SeqCst fence in this function: the notifier can miss a waiter that registered concurrently",
                                 where=e.loc)


def clause3(P, res):
    rid = "C05-3"
    res.rule(rid, "publish implies notify: after every publishing event of the slot table (ring push/pop, chain publish, slot state store, progress "
                  "store, cursor store, mailbox push, rendezvous fulfil) the matching notifier is called on every path to the function's exit")
    for row, b, p, status, detail, nontriv in pr.check_notify_rows(P):
        if b is None:
            res.unclassified(rid, row["id"], detail)
            continue
        key = f"{row['id']}:{b.id}"
        if status == "holds":
            res.holds(rid, key, detail, where=p.loc, nontrivial=nontriv, witness=[f"publish {p.loc}", detail])
        else:
            res.violated(rid, key, detail, where=p.loc, witness=[f"publish {p.loc}", row["why"]])


def clause4(P, res):
    from rules import disconnect
    rid = "C05-4"
    res.rule(rid, "disconnect wakes the other side: for every handle type whose peers can wait (table of exemptions with reasons in rules/disconnect.py), the "
                  "close path Drop::drop -> close -> close_internal/drop_* reaches a waker, and in every body on that path the call that leads to the wake "
                  "lies on every entry-to-return path that is not excused by a test of the handle's closed/disconnected flag or of the handle counter "
                  "(notifier bodies that consume the waiter slot are the domain of C05-1/C05-2)")
    seen = set()
    n = 0
    for r in disconnect.check(P):
        hp, b, st, detail, where = r[:5]
        key = f"{hp}" if b is None or "reaches no waker" in detail else f"path:{b.id}"
        if key in seen:
            continue
        seen.add(key)
        n += 1
        if st == "holds":
            res.holds(rid, key, detail, where=where, nontrivial=not detail.startswith("exempt"))
        elif st == "violated":
            res.violated(rid, key, detail, where=where)
        else:
            res.unclassified(rid, key, detail, where=where)
    if n < 50:
        res.violated(rid, "close-path-instances", f"expected >= 50 close-path instances, found {n}")


# wake-one protocols whose publisher can carry several items per notify: (module prefix, dequeue, baton, notifier, batch publisher marker, why)
BATON_ROWS = [
    {"id": "mpmc-unbounded", "scope": "fibre::mpmc_v2::unbounded::shared::UnboundedShared::<T>::",
     "dequeue": "pop_locked", "baton": "maybe_handoff", "notifier": "notify_receivers",
     "batch_marker": "bump_batch", "batch_scope": "fibre::mpmc_v2::unbounded::producer::",
     "why": "notify_receivers wakes one waiter per publish (kill-switch off) and send_batch publishes many items with one notify: unless a consumer that "
            "leaves items behind wakes the next waiter, the other parked receivers sleep on a non-empty queue"},
]


def clause6(P, res):
    rid = "C05-6"
    res.rule(rid, "wake-one protocols pass the baton: where one notify can publish several items but wakes a single waiter, every body that dequeues calls the "
                  "protocol's baton function, and on the live control-flow graph (edges contradicting a compile-time bool constant removed) the baton has a path that "
                  "takes a waiter off the queue and hands its wake handle out, guarded only by run-time tests")
    for row in BATON_ROWS:
        baton = P.body(row["scope"] + row["baton"])
        notifier = P.body(row["scope"] + row["notifier"])
        if baton is None or notifier is None:
            res.unclassified(rid, f"{row['id']}:shape", f"baton `{row['baton']}` or notifier `{row['notifier']}` not found: the protocol changed shape, re-read it and update BATON_ROWS", where="rules/c05.py")
            continue
        # is the row's premise still true? (a) some publisher carries several items per notify; (b) the notifier wakes at most one waiter on the live CFG
        batchers = [b for b in P.bodies.values() if b.id.startswith(row["batch_scope"]) and any(e.method == row["batch_marker"] for e in b.calls())
                    and any(e.method == row["notifier"] for e in b.calls())]
        live_n = notifier.live_positions()
        pops_n = [e for e in notifier.calls() if e.method in ("pop_front", "pop_back", "pop") and e.pos in live_n and "waiters" in notifier.path_of_operand(e.args[0])]
        in_loop = [e for e in pops_n if notifier.pos_reaches(e.pos, {e.pos}, removed_edges=notifier.dead_const_edges())]
        hand_n = [e for e in notifier.calls() if e.method == "handoff_session" and e.pos in live_n]
        if not batchers:
            res.holds(rid, f"{row['id']}:premise", "no publisher carries more than one item per notify: wake-one is sufficient", where=f"{notifier.file}:{notifier.line}", nontrivial=False)
            continue
        if hand_n or in_loop:
            res.holds(rid, f"{row['id']}:notifier", "the notifier itself serves every waiter it can (hand-off session / loop)", where=f"{notifier.file}:{notifier.line}")
            continue
        # every dequeuing body calls the baton
        for b in P.bodies.values():
            if not b.id.startswith(row["scope"]) or b.id in (baton.id,) or b.name == "handoff_session":
                continue
            deqs = [e for e in b.calls() if e.method == row["dequeue"]]
            if deqs:
                from rules import cachelib
                k = f"{row['id']}:{b.id}"
                batons = [e for e in b.calls() if e.method in (row["baton"], "handoff_session")]
                if not batons:
                    res.violated(rid, k, f"{b.name} dequeues with {row['dequeue']} but never calls {row['baton']}: items it leaves behind wake nobody. " + row["why"], where=f"{b.file}:{b.line}")
                    continue
                # after a successful dequeue every path to the exit passes the baton; the only branches that may skip it are the failure outcomes of
                # is_ok()/is_some() tests of the operation's own result (they cannot be taken after a success)
                excused = set()
                for blk in range(len(b.blocks)):
                    if b.is_cleanup(blk) or b.term(blk)["k"] != "switch":
                        continue
                    ss = b.switch_source(blk)
                    if ss and ss.get("kind") == "call" and ss["event"].method in ("is_ok", "is_some", "is_err", "is_none") and ss["event"].callee.startswith("core::"):
                        ok_true = ss["event"].method in ("is_ok", "is_some")
                        fail_label = ("false" if ok_true else "true") if not ss.get("neg") else ("true" if ok_true else "false")
                        excused |= set(b.edges_by_label(blk).get(fail_label, []))
                # a dequeue made after the senders were seen gone needs no baton: the last sender's drop wakes every waiter
                gone = []
                for blk in range(len(b.blocks)):
                    if b.is_cleanup(blk) or b.term(blk)["k"] != "switch":
                        continue
                    ss = b.switch_source(blk)
                    if ss and ss.get("kind") == "call" and ss["event"].method == "senders_alive":
                        gone += b.edges_by_label(blk).get("true" if ss.get("neg") else "false", [])
                starts = []
                for dq in deqs:
                    if gone and b.edges_dominate(gone, dq.pos):
                        continue
                    starts += [(t, 0) for _, t in cachelib.result_switch_edges(b, dq, "Some")]
                exits = set(b.exits())
                thr = frozenset(x.pos for x in batons)
                bad = None
                for st in starts:
                    if st in thr:
                        continue
                    if b.pos_reach_set(st, removed=thr, removed_edges=frozenset(excused), strict=False) & exits:
                        bad = st
                        break
                if not starts:
                    res.unclassified(rid, k, f"{b.name}: the result of {row['dequeue']} is not matched on a Some edge the rule recognises", where=deqs[0].loc)
                elif bad is not None:
                    res.violated(rid, k, f"{b.name}: after a successful {row['dequeue']} a path reaches the exit without {row['baton']} (the call is conditional on something other "
                                 "than the dequeue's own outcome): items left behind wake nobody. " + row["why"], where=batons[0].loc)
                else:
                    res.holds(rid, k, f"every successful dequeue is followed by {row['baton']}", where=batons[0].loc)
        def waiter_takes(bd, depth=0):
            """live calls of `bd` that take a waiter off the list, directly or through a helper of the same type (an extracted wake helper is the same wake)"""
            live = bd.live_positions()
            out = []
            for e in bd.calls():
                if e.pos not in live:
                    continue
                if (e.method in ("pop_front", "pop_back", "pop") and e.args and "waiters" in bd.path_of_operand(e.args[0])) or e.method == "handoff_session":
                    out.append(e)
                elif depth < 2:
                    hb = P.body(e.callee_resolved or e.callee) or P.body(e.callee)
                    if hb is not None and hb.id != bd.id and hb.id.rsplit("::", 1)[0] == baton.id.rsplit("::", 1)[0] and waiter_takes(hb, depth + 1):
                        out.append(e)
            return out
        pops = waiter_takes(baton)
        k = f"{row['id']}:{baton.id}"
        if pops:
            res.holds(rid, k, f"live path takes a waiter at {pops[0].loc}", where=pops[0].loc, witness=[f"multi-item publisher {b.id}" for b in batchers[:3]])
        else:
            res.violated(rid, k, f"{row['baton']} wakes nobody on the live control-flow graph (its only wake is behind a compile-time-false switch). " + row["why"],
                         where=f"{baton.file}:{baton.line}", witness=[f"multi-item publisher {b.id}" for b in batchers[:3]])


def clause7(P, res):
    """the disconnect that wakes blocked peers can actually happen: same instances as C04-9, judged for the waiters"""
    from rules import c04, common
    rid = "C05-7"
    sub = Result("C05")
    c04.clause9(P, sub, common.handles(P))
    res.rule(rid, "the last-handle disconnect (the only event that wakes a peer blocked on an empty/full channel whose other side is gone) remains reachable: a clone that is "
                  "counted in shared state is born open, so its Drop gives the count back — a counted clone born closed pins the count above zero and every parked "
                  "peer waits forever")
    for i in sub.instances:
        res.add(rid, i.key.split(":", 2)[2], i.status, i.detail, i.witness, i.nontrivial, i.obligations, i.where)


def mir_sources(b, call):
    """events feeding the receiver operand (the atomic the call operates on)"""
    import mir
    return mir.operand_sources(b, call.args[0])[0] if call.args else []


def clause8(P, res):
    from rules import cachelib
    rid = "C05-8"
    res.rule(rid, "bounded mpmc, space freed => senders looked at: (a) in try_recv_core / try_recv_batch_core every path from a successful dequeue to the exit reaches the scan of "
                  "the waiting-sender queues, except on the zero outcome of a comparison with the constant 0 (nothing dequeued / capacity 0) — a scan gated on a fullness "
                  "snapshot leaves senders parked below capacity, because single-item receives wake one sender per slot; (b) a sender claimed for a freed slot "
                  "(compare_exchange WAITING -> SUCCESS_SPACE) is unlinked from its queue before the function returns — a claimed waiter left at the head makes the next "
                  "receive's claim fail on it and drop the wake")
    core = "fibre::mpmc_v2::core::"
    na = nb = 0
    for b in P.bodies.values():
        if not b.id.startswith(core) or "::tests::" in b.id:
            continue
        scans = [e for e in b.calls() if e.args and re.search(r"waiting_(a?sync|async)_senders$", b.path_of_operand(e.args[0])) and e.method in ("len", "front", "iter", "is_empty", "get", "pop_front")]
        if b.name in ("try_recv_core", "try_recv_batch_core"):
            deq = [e for e in b.calls() if e.method in ("pop_front", "drain_into") and e.args and re.search(r"(^|\.)(queue|guard)$|queue$", b.path_of_operand(e.args[0]).split("@")[0])
                   and "senders" not in b.path_of_operand(e.args[0]) and "receivers" not in b.path_of_operand(e.args[0])]
            for dq in deq:
                na += 1
                key = f"{b.id}:{dq.method}#{sum(1 for x in deq if x.pos < dq.pos)}"
                starts = [(t, 0) for _, t in cachelib.result_switch_edges(b, dq, "Some")] or [dq.pos]
                excused = set()
                for blk in range(len(b.blocks)):
                    if b.is_cleanup(blk) or b.term(blk)["k"] != "switch":
                        continue
                    ss = b.switch_source(blk)
                    if ss and ss.get("kind") == "cmp" and ss["op"] in ("Gt", "Ne", "Lt", "Eq"):
                        ks = [(b.const_of_operand(ss["a"]) or {}).get("v"), (b.const_of_operand(ss["b"]) or {}).get("v")]
                        if 0 in ks:
                            zl = "true" if ss["op"] == "Eq" else "false"
                            if ss.get("neg"):
                                zl = "false" if zl == "true" else "true"
                            excused |= set(b.edges_by_label(blk).get(zl, []))
                thr = frozenset(x.pos for x in scans) | frozenset(x.pos for x in b.calls() if x.method in ("claim_next_sender",))
                exits = set(b.exits())
                bad = any((st not in thr) and (b.pos_reach_set(st, removed=thr, removed_edges=frozenset(excused), strict=(st == dq.pos)) & exits) for st in starts)
                if not scans and not any(x.method == "claim_next_sender" for x in b.calls()):
                    res.violated(rid, key, f"{b.name} frees buffer space at {dq.loc} and never looks at the waiting senders", where=dq.loc)
                elif bad:
                    res.violated(rid, key, f"after the dequeue at {dq.loc} a path reaches the exit without looking at the waiting senders although space was freed: the scan is "
                                 "conditional on something other than the dequeued count (a fullness snapshot, a flag)", where=dq.loc)
                else:
                    res.holds(rid, key, "space freed => waiting senders scanned", where=dq.loc)
        for e in b.calls():
            if not (e.is_atomic and e.method.startswith("compare_exchange") and len(e.args) >= 3):
                continue
            cs = [str((b.const_of_operand(a) or {}).get("path", "")) for a in e.args[1:3]]
            if not (cs[0].endswith("STATE_WAITING") and cs[1].endswith("STATE_SUCCESS_SPACE")):
                continue
            if b.name in ("close_internal",) or "close" in b.name:
                continue  # wake-all on close: every waiter is claimed and woken, nothing is metered
            nb += 1
            key = f"{b.id}:claim#{sum(1 for x in b.calls() if x.is_atomic and x.pos < e.pos)}"
            oks = cachelib.result_switch_edges(b, e, "Ok")
            for s2 in b.calls():
                if s2.method in ("is_ok", "is_err") and s2.args and b.producer_call(s2.args[0]) is e:
                    for blk in range(len(b.blocks)):
                        if not b.is_cleanup(blk) and b.term(blk)["k"] == "switch":
                            ss = b.switch_source(blk)
                            if ss and ss.get("kind") == "call" and ss["event"] is s2:
                                lab = "true" if s2.method == "is_ok" else "false"
                                if ss.get("neg"):
                                    lab = "false" if lab == "true" else "true"
                                oks += b.edges_by_label(blk).get(lab, [])
            unlinks = [x for x in b.calls() if x.method in ("remove", "pop_front", "swap_remove_back", "retain") and x.args and re.search(r"waiting_\w+$", b.path_of_operand(x.args[0]))]
            if not oks:
                res.unclassified(rid, key, "outcome of the claim is not branched on in a recognised form", where=e.loc)
            elif unlinks and (cachelib.all_paths_pass(b, [(t, 0) for _, t in oks], [x.pos for x in unlinks]) or
                              any(x.method == "pop_front" and b.dominated_by_any(e.pos, {x.pos}) and e in [y for y in b.calls() if x in mir_sources(b, y)] for x in unlinks)):
                res.holds(rid, key, f"claimed sender unlinked at {unlinks[0].loc}", where=e.loc)
            else:
                res.violated(rid, key, f"a sender is claimed for a freed slot at {e.loc} and stays linked in its queue: the next receive finds it at the head already claimed, its "
                             "claim fails and the wake for the second freed slot is dropped — senders behind it stay parked with room in the buffer", where=e.loc)
    if na < 2:
        res.violated(rid, "dequeue-sites", f"expected >= 2 dequeue sites in try_recv_core/try_recv_batch_core, found {na}")
    if nb < 2:
        res.violated(rid, "claim-sites", f"expected >= 2 WAITING->SUCCESS_SPACE claim sites in the bounded mpmc core, found {nb}")


def run(P, ctx):
    res = Result("C05")
    res.extra["explanation"] = "Park/notify protocol shapes at every site that blocks a thread in fibre's channels."
    clause1(P, res)
    clause2(P, res)
    clause3(P, res)
    clause4(P, res)
    clause5(P, res)
    clause6(P, res)
    clause7(P, res)
    clause8(P, res)
    return res
