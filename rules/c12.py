"""C12 — no expired entry is served. DESIGN.md §4 C12. Clause 1 instances in iterators and snapshots
are shared with C17-1."""
import re
import mir
from report import Result
from rules import cachelib as cl

# value() reads whose entry is a parameter (not looked up here), with the reason they need no gate.
PARAM_ROWS = {
    "fibre_cache::task::janitor::Janitor::cleanup_ttl_for_shard::{closure#0}":
        "value of the entry being removed, handed to the eviction listener only",
}
# compute mutates in place: a write API, not among the read APIs C12 names.
FIELD_READ_ROWS = {
    "fibre_cache::handles::sync::Cache::<K, V, H>::try_compute_val": "compute is a write API (read-modify-write), not a read path of C12",
    "fibre_cache::handles::futures::AsyncCache::<K, V, H>::try_compute_val::{closure#0}": "compute is a write API",
    "fibre_cache::entry::CacheEntry::<V>::value": "the accessor itself",
    "fibre_cache::<entry::CacheEntry<V> as core::fmt::Debug>::fmt": "Debug",
}


def expiry_edges(b, entry_path, expired=False):
    """Edges taken when is_expired(<entry_path>) returned `expired`."""
    out = []
    for blk in range(len(b.blocks)):
        if b.is_cleanup(blk):
            continue
        s = b.switch_source(blk)
        if s and s["kind"] == "call" and cl.is_expired_call(s["event"]) and b.path_of_operand(s["event"].args[0]) == entry_path:
            val = expired
            if s.get("neg"):
                val = not val
            out.extend(b.edges_by_label(blk).get("true" if val else "false", []))
    return out


def stale_branch_ok(b, v):
    """value() on the stale-while-revalidate branch: dominated by the Some edge of a match on
    `stale_while_revalidate` and by a call to trigger_background_load."""
    some_edges = []
    for blk in range(len(b.blocks)):
        if b.is_cleanup(blk):
            continue
        t = b.term(blk)
        if t["k"] == "switch" and t.get("on", {}).get("kind") == "discr" and b.path_of_place(t["on"]["p"]).endswith("stale_while_revalidate"):
            some_edges.extend(b.edges_by_label(blk).get("Some", []))
    if not some_edges or not b.edges_dominate(some_edges, v.pos):
        return False
    trig = [e.pos for e in b.calls() if e.method in ("trigger_background_load",)]
    if not (bool(trig) and b.dominated_by_any(v.pos, set(trig))):
        return False
    # the stale arm is for entries whose *TTL* ran out: it must be entered through the "deadline passed" outcome of a comparison of the clock with
    # the bare expires_at (not expires_at + grace). Entering it because is_expired() said so also admits entries whose idle timeout ran out.
    passed = []
    for blk in range(len(b.blocks)):
        if b.is_cleanup(blk):
            continue
        ss = b.switch_source(blk)
        if not ss or ss.get("kind") != "cmp" or ss["op"] not in ("Lt", "Ge", "Gt", "Le"):
            continue
        a, c = ss["a"], ss["b"]
        def bare_deadline(o):
            if not derives_from_deadline(b, o) or derives_from_clock(b, o):
                return False
            evs, _, _ = mir.operand_sources(b, o)
            return not any(e.kind == "assign" and e.data["r"]["k"] == "bin" and e.data["r"]["op"].startswith(("Add", "Sub")) for e in evs)
        if derives_from_clock(b, a) and bare_deadline(c):
            op = ss["op"]
        elif derives_from_clock(b, c) and bare_deadline(a):
            op = {"Lt": "Gt", "Gt": "Lt", "Le": "Ge", "Ge": "Le"}[ss["op"]]
        else:
            continue
        # op is `now <op> expires_at`; expired outcome:
        exp_label = {"Lt": "false", "Le": "false", "Ge": "true", "Gt": "true"}[op]
        if ss.get("neg"):
            exp_label = "true" if exp_label == "false" else "false"
        passed.extend(b.edges_by_label(blk).get(exp_label, []))
    return bool(passed) and b.edges_dominate(passed, v.pos)


def value_read_instances(P, res, rid, scope=None):
    n = 0
    for b in cl.cache_bodies(P):
        if scope and not any(s in b.id for s in scope):
            continue
        for v in b.calls(cl.is_value_call):
            pth = b.path_of_operand(v.args[0])
            origin = cl.entry_origin(pth)
            key = f"{b.id}:value@{origin}:{pth.split('::')[-1]}"
            where = v.loc
            n += 1
            if origin in ("removed", "fresh"):
                res.holds(rid, key, f"value of a {origin} entry (not a read of a resident entry)", where=where, nontrivial=False)
                continue
            if origin == "param":
                if b.id in PARAM_ROWS:
                    res.holds(rid, key, PARAM_ROWS[b.id], where=where, nontrivial=False)
                else:
                    res.unclassified(rid, key, f"value() of an entry whose origin the rule cannot classify ({pth})", where=where)
                continue
            edges = expiry_edges(b, pth, expired=False)
            if edges and b.edges_dominate(edges, v.pos):
                res.holds(rid, key, "behind the not-expired edge of is_expired on the same entry", where=where,
                          witness=[f"value() {v.loc}", f"is_expired false-edge(s) into bb{[t for _, t in edges]}"])
            elif stale_branch_ok(b, v):
                res.holds(rid, key, "stale-while-revalidate branch: behind `now >= expires_at`, `stale_while_revalidate = Some(_)` and trigger_background_load", where=where,
                          witness=[f"value() {v.loc}"])
            else:
                res.violated(rid, key, f"a resident entry's value is handed out at {v.loc} without is_expired having been consulted for that entry "
                             "(an expired-but-not-yet-collected entry is served)", where=where,
                             witness=[f"value() {v.loc} on {pth}", f"is_expired gates for this entry in the body: {len(edges)}"])
    return n


def clause1(P, res):
    rid = "C12-1"
    res.rule(rid, "expiry gate: every CacheEntry::value() on an entry obtained by a map lookup or map iteration is control-dependent on "
                  "the not-expired outcome of is_expired() of that same entry, or lies on the stale-while-revalidate branch "
                  "(entered because the clock passed the bare TTL deadline — not because is_expired said so, which would admit idle-expired entries — with a grace "
                  "configured and a background load triggered)")
    value_read_instances(P, res, rid)
    # direct reads of the `.value` field outside the accessor
    for b in cl.cache_bodies(P):
        for e in b.events:
            if e.kind != "assign":
                continue
            r = e.data["r"]
            p = r.get("p") if r["k"] in ("ref", "rawptr") else (mir.op_place(r.get("o")) if r["k"] == "use" else None)
            if not p or ".value" not in p[1]:
                continue
            base_adt = None
            # type of the place just before `.value`
            path = b.path_of_place(p)
            if "CacheEntry" not in (b.locals[p[0]].get("ty", "") + path) and "get_mut" not in path:
                continue
            key = f"{b.id}:field.value"
            if b.id in FIELD_READ_ROWS:
                res.holds(rid, key, FIELD_READ_ROWS[b.id], where=e.loc, nontrivial=False)
            elif "CacheEntry" in b.locals[p[0]].get("ty", ""):
                res.unclassified(rid, key, f"direct read of CacheEntry.value at {e.loc} outside the accessor", where=e.loc)



def expired_filter_collects(P, f):
    """[(collect call event, filter call event, closure body)] in body f: a collection built by `collect()` from an iterator chain that passes through
    `Iterator::filter` with a closure whose result is is_expired(..) of the element (the chain is lazy: the tests run when `collect` runs)."""
    out = []
    for c in f.calls():
        if c.method != "collect" or "Iterator" not in c.callee or not c.args:
            continue
        evs, _, _ = mir.operand_sources(f, c.args[0])
        for x in evs:
            if x.kind == "call" and x.method == "filter" and "Iterator" in x.callee and len(x.args) > 1:
                cp = f.path_of_operand(x.args[1])
                cb = P.body(cp[len("closure:"):]) if cp.startswith("closure:") else None
                if cb is None:
                    continue
                tests = [t for t in cb.calls() if cl.is_expired_call(t)]
                rets = [r for r in cb.events if r.kind == "assign" and r.data["p"] == [0, []]] + [r for r in cb.calls() if r.data["d"] == [0, []]]
                # the closure keeps exactly the expired ones: its return value is the (un-negated) result of is_expired
                direct = any(t.data["d"][0] == 0 for t in tests) or any(r.kind == "assign" and r.data["r"]["k"] == "use" and cb.producer_call(r.data["r"]["o"]) in tests for r in rets)
                if tests and direct:
                    out.append((c, x, cb))
    return out


def clause2(P, res):
    rid = "C12-2"
    res.rule(rid, "removals reported as Expired are justified by the deadline: every site that notifies EvictionReason::Expired or bumps "
                  "evicted_by_ttl/evicted_by_tti is control-dependent on is_expired() == true of the entry removed (directly, or because the "
                  "victim list it iterates is only ever filled on that edge)")
    for b in cl.cache_bodies(P):
        sites = []
        for e in b.events:
            if e.kind == "assign" and e.data["r"]["k"] == "agg" and e.data["r"]["adt"].endswith("EvictionReason") and e.data["r"]["variant"] == "Expired":
                sites.append((e, "notifies EvictionReason::Expired"))
            if e.kind == "call" and e.is_atomic and e.method == "fetch_add" and e.args and b.path_of_operand(e.args[0]).rsplit(".", 1)[-1] in ("evicted_by_ttl", "evicted_by_tti"):
                sites.append((e, "counts an expiry eviction"))
        if not sites:
            continue
        # expired edges of any is_expired in this body or its parent
        fam = [b] + ([P.body(b.parent)] if b.parent and P.body(b.parent) else [])
        results = []
        for e, what in sites:
            ok = False
            why = ""
            # direct: dominated by expired edge of some is_expired in this body
            for blk in range(len(b.blocks)):
                if b.is_cleanup(blk):
                    continue
                s = b.switch_source(blk)
                if s and s["kind"] == "call" and cl.is_expired_call(s["event"]):
                    lab = "false" if s.get("neg") else "true"
                    es = b.edges_by_label(blk).get(lab, [])
                    if es and b.edges_dominate(es, e.pos):
                        ok, why = True, f"behind the expired edge of is_expired at {s['event'].loc}"
            if not ok:
                # via victim list: a Vec::push dominated by an expired edge, and this site inside a loop over that Vec
                for f in fam:
                    for push in f.calls(lambda x: x.method == "push" and x.callee.startswith("alloc::vec::Vec")):
                        vec = f.path_of_operand(push.args[0])
                        pes = []
                        for blk in range(len(f.blocks)):
                            if f.is_cleanup(blk):
                                continue
                            s = f.switch_source(blk)
                            if s and s["kind"] == "call" and cl.is_expired_call(s["event"]):
                                pes.extend(f.edges_by_label(blk).get("false" if s.get("neg") else "true", []))
                        if not pes or not f.edges_dominate(pes, push.pos):
                            continue
                        other_pushes = [x for x in f.calls(lambda x: x.method in ("push", "extend", "insert") and x.callee.startswith("alloc::vec::Vec"))
                                        if f.path_of_operand(x.args[0]) == vec and x is not push]
                        if other_pushes:
                            continue
                        # the removal that feeds this site takes its key from iterating `vec`
                        rem = [r for r in cl.map_events(b, {"remove", "remove_entry"})]
                        for r in rem:
                            evs, _, _ = mir.operand_sources(b, r.args[1]) if len(r.args) > 1 else ([], set(), [])
                            iters = [x for x in evs if x.kind == "call" and x.method in ("into_iter", "iter", "next", "drain")]
                            if any(vec.split(".")[-1] in b.path_of_operand(x.args[0]) or vec in b.path_of_operand(x.args[0]) for x in iters if x.args):
                                some = cl.result_switch_edges(b, r, "Some")
                                if some and b.edges_dominate(some, e.pos):
                                    ok, why = True, f"victims `{vec}` are only pushed on the expired edge ({push.loc}); this site is on the Some edge of their removal"
            if not ok:
                # via a victim list built by `collect()` behind `filter(|e| e.is_expired(..))`
                for f in fam:
                    for col, flt, cb in expired_filter_collects(P, f):
                        vec_local = col.data["d"][0]
                        al = mir.alias_locals(f, vec_local)
                        for r in cl.map_events(b, {"remove", "remove_entry"}):
                            evs, _, _ = mir.operand_sources(b, r.args[1]) if len(r.args) > 1 else ([], set(), [])
                            from_vec = any((x.kind == "call" and any((mir.op_place(a) or [None])[0] in al for a in x.args)) or
                                           (x.kind == "assign" and x.data["r"]["k"] in ("ref", "use") and ((x.data["r"].get("p") or mir.op_place(x.data["r"].get("o")) or [None])[0] in al))
                                           for x in evs) if f is b else False
                            some = cl.result_switch_edges(b, r, "Some")
                            if from_vec and some and b.edges_dominate(some, e.pos):
                                ok, why = True, f"victims are collected behind filter(is_expired) at {flt.loc}; this site is on the Some edge of their removal"
            results.append((ok, e, what, why))
        key = f"{b.id}:expired-removal"
        bad = [r for r in results if not r[0]]
        if not bad:
            res.holds(rid, key, results[0][3], where=results[0][1].loc, obligations=len(results),
                      witness=[f"{w} at {e.loc}: {y}" for _, e, w, y in results])
        else:
            _, e, what, _ = bad[0]
            res.violated(rid, key, f"{what} at {e.loc} for an entry whose deadline was never checked on this path: entries are selected by something "
                         "other than is_expired (e.g. a fired timer's key hash), so an unexpired entry can be removed and reported Expired",
                         where=e.loc, obligations=len(results), witness=[f"{w} at {x.loc}" for _, x, w, _ in bad])


def clause3(P, res):
    rid = "C12-3"
    res.rule(rid, "peek does not refresh: no path in the call graph from peek reaches update_last_accessed, on_hit or the read-access batcher")
    for bid in ("fibre_cache::handles::sync::Cache::<K, V, H>::peek", "fibre_cache::handles::futures::AsyncCache::<K, V, H>::peek"):
        b = P.body(bid)
        if b is None:
            res.unclassified(rid, bid, "peek not found in the fact base")
            continue
        start = [b.id] + [c.id for c in P.children(b.id)]
        hit = P.reaches(start, lambda c: c.endswith("::update_last_accessed") or c.endswith("::on_hit") or c.endswith("::record_access"))
        if hit:
            res.violated(rid, bid, f"peek reaches {hit[0]} via {' -> '.join(hit[1])}: peeking refreshes the idle timer / recency", where=f"{b.file}:{b.line}",
                         witness=list(hit[1]))
        else:
            n = len(P.reach_closure(start))
            res.holds(rid, bid, f"{n} reachable functions, none refreshes access state", where=f"{b.file}:{b.line}")


SLOT_ALIASES = {"time_to_live": {"ttl", "time_to_live", "global_ttl"}, "time_to_idle": {"tti", "time_to_idle"}}
# relative durations must not be handed to parameters that expect an absolute deadline (and vice versa)
RELATIVE_SRC = re.compile(r"(^|\.)(ttl_remaining|ttl|time_to_live|remaining)(@Some\.0)?$")
ABSOLUTE_PARAM = re.compile(r"^(expires_at|deadline|expiry)$")


def clause4(P, res):
    rid = "C12-4"
    res.rule(rid, "expiry inputs reach the right slot: wherever the configured `time_to_live` / `time_to_idle` is passed to a cache function, the receiving "
                  "parameter is the TTL (resp. TTI) parameter of that function — the two have the same type, so a swap compiles and silently changes which "
                  "deadline an entry gets")
    n = 0
    for b in cl.cache_bodies(P):
        for e in b.calls():
            tgt = P.body(e.callee_resolved)
            if tgt is None or not tgt.id.startswith("fibre_cache::"):
                continue
            for i, a in enumerate(e.args):
                p = b.path_of_operand(a)
                last = p.rsplit(".", 1)[-1]
                if i + 1 <= tgt.argc and RELATIVE_SRC.search(p) and ABSOLUTE_PARAM.match(tgt.local_name(i + 1) or ""):
                    n += 1
                    res.violated(rid, f"{b.id}->{tgt.name}:arg{i}:relative-as-absolute", f"`{p}` (a remaining lifetime) is passed at {e.loc} as `{tgt.local_name(i + 1)}` of "
                                 f"{tgt.name}, which expects an absolute deadline: restored entries expire at once or at an arbitrary time", where=e.loc)
                    continue
                if last not in SLOT_ALIASES or i + 1 > tgt.argc:
                    continue
                pname = tgt.local_name(i + 1)
                other = [k for k in SLOT_ALIASES if k != last][0]
                n += 1
                key = f"{b.id}->{tgt.name}:arg{i}:{last}"
                if pname in SLOT_ALIASES[other]:
                    res.violated(rid, key, f"`{p}` is passed at {e.loc} as parameter `{pname}` of {tgt.id.rsplit('::', 2)[-2]}::{tgt.name}: the idle timeout and the time-to-live are swapped, "
                                 "entries created here get the wrong deadline", where=e.loc)
                elif pname in SLOT_ALIASES[last]:
                    res.holds(rid, key, f"`{last}` -> parameter `{pname}`", where=e.loc)
                else:
                    res.holds(rid, key, f"`{last}` -> parameter `{pname}` (no TTL/TTI role)", where=e.loc, nontrivial=False)
    if n < 12:
        res.violated(rid, "expiry-arguments", f"expected >= 12 call sites passing time_to_live/time_to_idle, found {n}")


def derives_from_clock(b, op):
    evs, _, _ = mir.operand_sources(b, op)
    return any(e.kind == "call" and re.search(r"time::now_duration$|Instant::now$|now_duration$", e.callee_resolved or e.callee or "") for e in evs)


def derives_from_deadline(b, op):
    pth = b.path_of_operand(op)
    if re.search(r"(expires_at|expires_at_nanos|last_accessed)$", pth):
        return True
    evs, _, _ = mir.operand_sources(b, op)
    return any(e.kind == "call" and e.is_atomic and e.method == "load" and e.args and re.search(r"(expires_at|last_accessed)$", b.path_of_operand(e.args[0])) for e in evs)


def clause5(P, res):
    rid = "C12-5"
    res.rule(rid, "the expiry instant itself is expired: every ordering comparison between the clock (`now`) and a deadline derived from expires_at / last_accessed is "
                  "`now >= deadline` (expired) or `now < deadline` (fresh) — `>` / `<=` serve the entry at its expiry instant and make the read paths disagree")
    n = 0
    for b in cl.cache_bodies(P):
        k = 0
        for e in b.events:
            if e.kind != "assign" or e.data["r"]["k"] != "bin" or e.data["r"]["op"] not in ("Lt", "Le", "Gt", "Ge"):
                continue
            r = e.data["r"]
            ca, cb = derives_from_clock(b, r["a"]), derives_from_clock(b, r["b"])
            da, db = derives_from_deadline(b, r["a"]), derives_from_deadline(b, r["b"])
            if ca and db and not da:
                op = r["op"]
            elif cb and da and not db:
                op = {"Lt": "Gt", "Gt": "Lt", "Le": "Ge", "Ge": "Le"}[r["op"]]
            else:
                continue
            n += 1
            key = f"{b.id}:now-vs-deadline#{k}"
            k += 1
            if op in ("Ge", "Lt"):
                res.holds(rid, key, f"now {'>=' if op == 'Ge' else '<'} deadline", where=e.loc)
            else:
                res.violated(rid, key, f"the clock is compared with `{'>' if op == 'Gt' else '<='}` against the deadline at {e.loc}: an entry read exactly at its expiry instant is "
                             "served (and the read paths no longer agree on the instant)", where=e.loc)
    if n < 4:
        res.violated(rid, "deadline-comparisons", f"expected >= 4 clock-vs-deadline comparisons, found {n}")


def clause6(P, res):
    rid = "C12-6"
    res.rule(rid, "every expiry test is told the configured idle timeout: the `tti` argument of each is_expired call is the cache's `time_to_idle` (never a literal None or "
                  "another duration) — a test that leaves it out serves or exports entries whose idle timeout has elapsed")
    n = 0
    for b in cl.cache_bodies(P):
        for k, e in enumerate([x for x in b.calls() if x.method == "is_expired" and "CacheEntry" in (x.callee_full or x.callee)]):
            n += 1
            key = f"{b.id}:is_expired#{k}"
            pth = b.path_of_operand(e.args[1]) if len(e.args) > 1 else ""
            if re.search(r"time_to_idle$", pth):
                res.holds(rid, key, f"tti = `{pth}`", where=e.loc)
            else:
                res.violated(rid, key, f"is_expired at {e.loc} is not given the configured time_to_idle (argument: `{pth or 'constant'}`): idle-expired entries pass this test", where=e.loc)
    if n < 15:
        res.violated(rid, "is_expired-sites", f"expected >= 15 is_expired call sites, found {n}")


def clause7(P, res):
    rid = "C12-7"
    res.rule(rid, "deadlines are fixed at insertion, the clock is the real one: nothing writes `expires_at` after the entry was built (a read path that pushes it out "
                  "makes every other read serve an expired value), `last_accessed` is written only by update_last_accessed, and is_expired / update_last_accessed read "
                  "the precise clock (time::now_duration) themselves, not a cached reading")
    wr = []
    for b in cl.cache_bodies(P):
        for e in b.calls():
            if e.is_atomic and e.method not in ("load", "new", "get_mut", "into_inner") and e.args:
                pth = b.path_of_operand(e.args[0])
                if re.search(r"(expires_at|last_accessed)$", pth):
                    wr.append((b, e, pth))
    okw = 0
    for b, e, pth in wr:
        key = f"{b.id}:{pth.rsplit('.', 1)[-1]}.{e.method}"
        if pth.endswith("last_accessed") and b.name == "update_last_accessed":
            okw += 1
            res.holds(rid, key, "the designated idle-refresh", where=e.loc)
        else:
            res.violated(rid, key, f"`{pth}` is rewritten at {e.loc} outside the entry constructors / update_last_accessed: the deadline every other read path checks has moved", where=e.loc)
    if okw < 1:
        res.violated(rid, "deadline-writers", "update_last_accessed's store not found (matcher self-check)")
    for name in ("is_expired", "update_last_accessed"):
        bb = P.body(f"fibre_cache::entry::CacheEntry::<V>::{name}")
        if bb is None:
            res.unclassified(rid, name, "function not found")
        elif any(re.search(r"time::now_duration$", x.callee_resolved or x.callee or "") for x in bb.calls()):
            res.holds(rid, f"{name}:clock", "reads time::now_duration()", where=f"{bb.file}:{bb.line}")
        else:
            res.violated(rid, f"{name}:clock", f"{name} no longer reads the precise clock itself: expiry is decided against a stale reading", where=f"{bb.file}:{bb.line}")


def clause8(P, res):
    from rules import c11
    rid = "C12-8"
    res.rule(rid, "expiry is decided and acted on in one critical section: wherever a function both tests is_expired and removes entries from a shard map, the test and "
                  "the removal happen under the same acquisition of that shard's write lock — a victim sampled under one lock and removed under another may have been "
                  "overwritten or refreshed in between, and a live entry is removed (and reported Expired)")
    n = 0
    for b in cl.cache_bodies(P):
        ex = [e for e in b.calls() if cl.is_expired_call(e)]
        ex += [col for col, flt, cb in expired_filter_collects(P, b)]  # lazy chain: the tests run where `collect` runs
        rm = cl.map_events(b, {"remove", "remove_entry", "retain"})
        if not ex or not rm:
            continue
        n += 1
        acqs = c11.shard_write_acqs(b)
        regions = [mir.guards_held(b, [a])[0] for a in acqs]
        bad = None
        for r in rm:
            reg = [h for h in regions if r.pos in h]
            if not reg:
                bad = f"the removal at {r.loc} is not under a shard write guard acquired in this function"
                break
            if not all(any(x.pos in h for h in reg) for x in ex):
                x = [x for x in ex if not any(x.pos in h for h in reg)][0]
                bad = f"is_expired is evaluated at {x.loc} outside the write-lock critical section of the removal at {r.loc}: the entry removed may no longer be the one that was tested"
                break
        if bad:
            res.violated(rid, b.id, bad, where=rm[0].loc)
        else:
            res.holds(rid, b.id, f"{len(ex)} expiry test(s) and {len(rm)} removal(s) under one write guard", where=rm[0].loc)
    if n < 1:
        res.violated(rid, "test-and-remove-bodies", "expected the TTI cleanup (is_expired + remove in one function), found none")


def run(P, ctx):
    res = Result("C12")
    res.extra["explanation"] = ("Expiry-gate, Expired-reason justification and peek-does-not-refresh shapes over every value read of fibre_cache.")
    clause1(P, res)
    clause2(P, res)
    clause3(P, res)
    clause4(P, res)
    clause5(P, res)
    clause6(P, res)
    clause7(P, res)
    clause8(P, res)
    return res
