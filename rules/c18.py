"""C18 — IoC resolution. DESIGN.md §4 C18. Facts: fibre_ioc (default) + fibre_ioc+local."""
import re

import mir
from report import Result

CRATE = "fibre_ioc::"


def ioc_bodies(P):
    return [b for b in P.bodies.values() if b.id.startswith(CRATE)]


def operand_paths(b, e):
    out = []
    if e.kind == "call":
        out = [b.path_of_operand(a) for a in e.args]
        ind = e.data["f"].get("indirect")
        if ind is not None:
            out.append(b.path_of_operand(ind))
    elif e.kind == "assign":
        r = e.data["r"]
        for k in ("o", "a", "b"):
            if k in r and isinstance(r[k], dict):
                out.append(b.path_of_operand(r[k]))
        if "p" in r:
            out.append(b.path_of_place(r["p"]))
        for o in r.get("ops", []) or []:
            out.append(b.path_of_operand(o))
    return out


def clause1(P, res):
    rid = "C18-1"
    res.rule(rid, "singleton factories run only under the once-cell: every use of a `Singleton{factory}` field is as the initialiser argument of "
                  "OnceCell::get_or_init on the `cell` of the same provider; transient resolution never touches a cell")
    n = 0
    for b in ioc_bodies(P):
        uses = []
        for e in b.events:
            if e.kind not in ("call", "assign"):
                continue
            ps = operand_paths(b, e)
            if any("@Singleton.factory" in p for p in ps):
                uses.append((e, ps))
        if not uses:
            continue
        # only judge consuming uses: calls (a ref/copy temp is resolved through to the call)
        calls = [(e, ps) for e, ps in uses if e.kind == "call"]
        for e, ps in calls:
            n += 1
            key = f"{b.id}:{e.method or 'call'}"
            if e.method == "get_or_init" and "once_cell" in e.callee and any("@Singleton.cell" in p for p in ps[:1]):
                res.holds(rid, key, "factory passed to get_or_init of the provider's own cell", where=e.loc, witness=[f"{e.loc}: {e.callee_full}"])
            else:
                res.violated(rid, key, f"singleton factory is used outside OnceCell::get_or_init at {e.loc} ({e.callee_full or 'indirect call'}): "
                             "it can run more than once and callers can receive different instances", where=e.loc)
    if n == 0:
        res.violated(rid, "no-singleton-resolution", "no use of a Singleton factory found: singleton resolution is gone or renamed (fail closed)")
    # transient arms never touch a cell
    for b in ioc_bodies(P):
        for e in b.calls():
            ps = operand_paths(b, e)
            if any("@Transient" in p for p in ps) and "once_cell" in e.callee:
                res.violated(rid, f"{b.id}:transient-cell", f"transient provider goes through a once-cell at {e.loc}: instances would be cached", where=e.loc)


def clause2(P, res):
    rid = "C18-2"
    res.rule(rid, "the cycle guard covers resolution: in every container `get`, ResolutionGuard::new(key) dominates the provider lookup and the "
                  "factory invocation and the guard is still alive there; the guard's constructor panics when the key is already on the "
                  "thread's stack and its Drop removes the key")
    gets = [b for b in ioc_bodies(P) if b.name == "get" and b.kind == "method" and "ontainer" in (b.self_adt or "")]
    if len(gets) < 2:
        res.violated(rid, "get-bodies", f"expected Container::get and LocalContainer::get, found {[g.id for g in gets]}")
    for b in gets:
        key = b.id
        g = [e for e in b.calls() if e.callee == "fibre_ioc::core::ResolutionGuard::new"]
        if not g:
            res.violated(rid, key, "get() resolves without creating a ResolutionGuard: a dependency cycle recurses until the stack overflows", where=f"{b.file}:{b.line}")
            continue
        held, kills, _ = mir.guards_held(b, [(g[0], None)])
        sens = [e for e in b.calls() if (e.method in ("get", "get_or_init", "get_singleton_ref", "get_transient_owned") and
                                         ("providers" in " ".join(b.path_of_operand(a) for a in e.args) or "Provider" in e.callee_full or "once_cell" in e.callee))
                or e.callee.startswith("core::ops::function::Fn::call")]
        bad = [e for e in sens if e.pos not in held]
        if sens and not bad:
            res.holds(rid, key, f"guard created at {g[0].loc} is alive over {len(sens)} lookup/factory site(s)", where=g[0].loc, obligations=len(sens),
                      witness=[f"guard {g[0].loc}"] + [f"{e.loc}: {e.method}" for e in sens])
        elif not sens:
            res.unclassified(rid, key, "no provider lookup recognised in get()", where=f"{b.file}:{b.line}")
        else:
            res.violated(rid, key, f"provider lookup / factory call at {bad[0].loc} is not covered by a live ResolutionGuard", where=bad[0].loc)
    # constructor and destructor of the guard
    new = P.body("fibre_ioc::core::ResolutionGuard::new")
    clo = P.children(new.id) if new else []
    ok = False
    for c in clo:
        ins = [e for e in c.calls() if e.method == "insert" and "HashSet" in e.callee]
        pan = [e for e in c.calls() if e.callee.startswith("core::panicking::")]
        for i in ins:
            for blk in range(len(c.blocks)):
                s = None if c.is_cleanup(blk) else c.switch_source(blk)
                if s and s["kind"] == "call" and s["event"] is i:
                    lab = "true" if s.get("neg") else "false"
                    es = c.edges_by_label(blk).get(lab, [])
                    if pan and es and all(c.edges_dominate(es, p.pos) for p in pan):
                        ok = True
    if ok:
        res.holds(rid, "fibre_ioc::core::ResolutionGuard::new", "panics exactly when the key was already on the resolution stack", where=f"{new.file}:{new.line}")
    else:
        res.violated(rid, "fibre_ioc::core::ResolutionGuard::new", "constructor does not panic on the already-present edge of the stack insert")
    d = [b for b in ioc_bodies(P) if b.impl_trait == "core::ops::drop::Drop" and (b.self_adt or "").endswith("ResolutionGuard")]
    dr = [e for x in d for c in [x] + P.children(x.id) for e in c.calls() if e.method == "remove" and "HashSet" in e.callee]
    if dr:
        res.holds(rid, "fibre_ioc::core::ResolutionGuard::drop", "removes its key from the stack", where=dr[0].loc)
    else:
        res.violated(rid, "fibre_ioc::core::ResolutionGuard::drop", "Drop does not remove the key: the second resolution of any service panics as a cycle")


def clause3(P, res):
    rid = "C18-3"
    res.rule(rid, "keys are identified by both components: PartialEq::eq of the injection key compares type_id and name, and Hash::hash reads "
                  "no field that eq ignores (hash may legitimately read fewer fields, never other ones)")
    got = {}
    for tr, nm in (("core::cmp::PartialEq", "eq"), ("core::hash::Hash", "hash")):
        bs = [b for b in ioc_bodies(P) if b.impl_trait == tr and b.name == nm and (b.self_adt or "").endswith("InjectionKey")]
        if not bs:
            res.violated(rid, f"InjectionKey::{nm}", f"no {tr} impl for InjectionKey in the fact base")
            continue
        b = bs[0]
        seen = set()
        for e in b.events:
            for p in operand_paths(b, e):
                for f in [x["name"] for x in P.adt_fields("fibre_ioc::core::InjectionKey")]:
                    if re.search(r"\.%s\b" % f, p):
                        seen.add(f)
        got[nm] = (b, seen)
    if "eq" in got:
        b, seen = got["eq"]
        if {"type_id", "name"} <= seen:
            res.holds(rid, b.id, "compares type_id and name", where=f"{b.file}:{b.line}", obligations=2)
        else:
            res.violated(rid, b.id, f"eq ignores {sorted({'type_id', 'name'} - seen)}: differently typed or named registrations alias", where=f"{b.file}:{b.line}")
    if "hash" in got and "eq" in got:
        b, seen = got["hash"]
        extra = seen - got["eq"][1]
        if extra:
            res.violated(rid, b.id, f"hash reads {sorted(extra)} which eq ignores: equal keys can hash differently and a registered service is not found", where=f"{b.file}:{b.line}")
        else:
            res.holds(rid, b.id, f"hash reads {sorted(seen)} (a subset of what eq compares)", where=f"{b.file}:{b.line}")


def key_builders(P):
    """fibre_ioc helper functions that build an InjectionKey for their own type parameter from their `name` argument (InjectionKey::new::<T>() /
    new_with_name::<T>(name) on the two arms of a match on the name): calling one is a key construction like the inline match"""
    out = set()
    for b in ioc_bodies(P):
        mk = [e for e in b.calls() if e.callee in ("fibre_ioc::core::InjectionKey::new", "fibre_ioc::core::InjectionKey::new_with_name")]
        if len(mk) < 2 or re.match(r"add_\w+_internal$|get$", b.name) or b.self_adt == "fibre_ioc::core::InjectionKey":
            continue
        tps = set(re.findall(r"::<([A-Z]\w*)>$", " ".join(e.callee_full for e in mk)))
        named = [e for e in mk if e.method == "new_with_name"]
        rets = [e for e in mk if e.data["d"][0] == 0] or mk
        if len(tps) == 1 and named and all(mir.operand_sources(b, e.args[0])[1] for e in named) and "InjectionKey" in (b.locals[0].get("ty") or ""):
            out.add(b.id)
    return out


def clause4(P, res):
    rid = "C18-4"
    res.rule(rid, "registration overwrites and is keyed by the registered type and name: every add_*_internal reaches `insert` on the providers "
                  "map (not entry().or_insert) with a key built by InjectionKey::new::<T>/new_with_name::<T>(name) for the function's own type "
                  "parameter and its `name` argument")
    regs = [b for b in ioc_bodies(P) if re.match(r"add_\w+_internal$", b.name)]
    if len(regs) < 7:
        res.violated(rid, "registration-bodies", f"expected >= 7 add_*_internal bodies (4 Container + 3..4 LocalContainer), found {len(regs)}")
    for b in regs:
        key = b.id
        ins = [e for e in b.calls() if e.method == "insert" and e.args and "providers" in b.path_of_operand(e.args[0])]
        ents = [e for e in b.calls() if e.method in ("entry", "or_insert", "or_insert_with", "get_or_insert_with")]
        if not ins or ents:
            res.violated(rid, key, "registration does not overwrite: it must `insert` into the providers map so that the latest registration wins", where=f"{b.file}:{b.line}")
            continue
        i = ins[0]
        kb = key_builders(P)
        mk = mir.derives_from_call(b, i.args[1], lambda e: e.callee in ("fibre_ioc::core::InjectionKey::new", "fibre_ioc::core::InjectionKey::new_with_name") or e.callee_resolved in kb or e.callee in kb)
        tparams = set(re.findall(r"::<([A-Z]\w*)>$", " ".join(e.callee_full for e in mk)))
        named = [e for e in mk if e.method == "new_with_name" or e.callee_resolved in kb or e.callee in kb]
        name_ok = bool(named) and all(e.args and any(l in mir.operand_sources(b, e.args[0])[1] for l in range(1, b.argc + 1)) for e in named)
        via_builder = any(e.callee_resolved in kb or e.callee in kb for e in mk)
        if (len(mk) >= 2 or via_builder) and len(tparams) == 1 and name_ok:
            res.holds(rid, key, f"insert(key) with key = InjectionKey::new[_with_name]::<{list(tparams)[0]}>(name)", where=i.loc, obligations=3,
                      witness=[f"{e.loc}: {e.callee_full}" for e in mk] + [f"insert {i.loc}"])
        else:
            res.violated(rid, key, f"registration key is not built from the registered type and the `name` argument (constructors seen: {[e.callee_full for e in mk]})", where=i.loc)


EFFECTS = ("InjectionKey::new", "InjectionKey::new_with_name", "ResolutionGuard::new", "::insert", "get_or_init", "Fn::call", "::get")


def effect_seq(P, b):
    seq = []
    kb = key_builders(P)
    for e in sorted(b.calls(), key=lambda e: e.pos):
        c = e.callee
        if c.endswith("InjectionKey::new") or c.endswith("InjectionKey::new_with_name") or c in kb or e.callee_resolved in kb:
            seq.append("key")
        elif c.endswith("ResolutionGuard::new"):
            seq.append("guard")
        elif e.method == "insert" and e.args and "providers" in b.path_of_operand(e.args[0]):
            seq.append("insert")
        elif e.method == "get" and e.args and "providers" in b.path_of_operand(e.args[0]):
            seq.append("lookup")
        elif e.method == "get_or_init":
            seq.append("once")
        elif c.startswith("core::ops::function::Fn::call") and e.args and "factory" in b.path_of_operand(e.args[0]):
            seq.append("factory()")
        elif e.method in ("get_singleton_ref",):
            seq.append("once")
        elif e.method in ("get_transient_owned",):
            seq.append("factory()")
    # collapse duplicates that come from the two arms of `match name`
    out = []
    for s in seq:
        if not out or out[-1] != s:
            out.append(s)
    return out


def clause5(P, res):
    rid = "C18-5"
    res.rule(rid, "Container and LocalContainer agree: methods of the same name perform the same sequence of resolution effects "
                  "(key construction, cycle guard, providers insert/lookup, once-cell init, factory call)")
    a = {b.name: b for b in ioc_bodies(P) if b.self_adt == "fibre_ioc::container::Container" and b.kind == "method" and not b.impl_trait}
    l = {b.name: b for b in ioc_bodies(P) if b.self_adt == "fibre_ioc::local_container::LocalContainer" and b.kind == "method" and not b.impl_trait}
    if not l:
        res.violated(rid, "local-container", "LocalContainer bodies missing from the fact base (feature `local` not extracted)")
        return
    for nm in sorted(set(a) | set(l)):
        if nm in ("add_instance_internal", "add_instance", "add_instance_with_name"):
            # API difference confirmed by reading: LocalContainer offers no pre-built-instance registration; compared when both exist
            if nm not in a or nm not in l:
                continue
        key = nm
        if nm not in a or nm not in l:
            if nm.startswith("add_") or nm == "get":
                res.violated(rid, key, f"method `{nm}` exists only on {'Container' if nm in a else 'LocalContainer'}")
            continue
        sa, sl = effect_seq(P, a[nm]), effect_seq(P, l[nm])
        if sa == sl:
            res.holds(rid, key, " -> ".join(sa) or "(delegates)", where=f"{a[nm].file}:{a[nm].line}", nontrivial=bool(sa))
        else:
            res.violated(rid, key, f"effect sequences differ: Container {sa} vs LocalContainer {sl}", where=f"{l[nm].file}:{l[nm].line}")


PROVIDER_MUTATORS = {"insert", "remove", "get_mut", "try_get_mut", "entry", "try_entry", "alter", "alter_all", "retain", "clear", "iter_mut", "remove_if", "remove_if_mut", "get_or_insert_with"}


def clause6(P, res):
    import re
    rid = "C18-6"
    res.rule(rid, "only registration writes the provider table: every mutating call on a container's `providers` map (insert, remove, get_mut/try_get_mut, entry, alter, "
                  "retain, clear) lies in an add_*_internal registration function (or Drop/clear of the container); the resolution path only reads — a resolver that "
                  "writes back (caching a resolved instance into the table) after releasing the entry can overwrite a newer registration")
    n = 0
    for b in ioc_bodies(P):
        for e in b.calls():
            if e.method in PROVIDER_MUTATORS and e.args and re.search(r"(^|\.)providers$", b.path_of_operand(e.args[0])):
                n += 1
                root = P.body(b.root) if b.root and P.body(b.root) else b
                key = f"{b.id}:{e.method}"
                if re.search(r"::add_\w+_internal$", root.id) or root.name in ("clear", "drop"):
                    res.holds(rid, key, f"registration writes the table ({root.name})", where=e.loc)
                else:
                    res.violated(rid, key, f"{root.name} mutates the provider table at {e.loc} outside a registration function: a write-back from the resolution path is not "
                                 "ordered with re-registration of the key (the latest registration can be overwritten by a stale product)", where=e.loc)
    if n < 6:
        res.unclassified(rid, "provider-writes", f"expected >= 6 provider-table writes in the registration functions, found {n}", where="rules/c18.py")


def run(P, ctx):
    res = Result("C18")
    res.extra["explanation"] = "Once-cell, cycle-guard, key-identity, overwrite and sibling-agreement shapes of fibre_ioc (global, instance and local containers)."
    clause1(P, res)
    clause2(P, res)
    clause3(P, res)
    clause4(P, res)
    clause5(P, res)
    clause6(P, res)
    res.extra["assumptions"] = ["at-most-once initialisation under races is delegated to once_cell (trusted)"]
    return res
