"""Park / notify protocol templates (rule family R5) and the slot tables frozen from reading
the code. Used by C05 (channels) and C10 (hybrid locks). DESIGN.md §3 R5, §4 C05."""
import re

import mir

PARK_PRIMS = {
    "std::thread::functions::park",
    "std::thread::functions::park_timeout",
    "fibre::sync_util::park_thread",
    "fibre::sync_util::park_thread_timeout",
    "fibre::mpmc_v2::backoff::adaptive_wait",
    "fibre::internal::rendezvous::park_until_terminal",
}
# bodies that merely wrap a primitive: their callers are the park sites
PARK_WRAPPERS = {
    "fibre::sync_util::park_thread": "thin wrapper over thread::park (telemetry only)",
    "fibre::sync_util::park_thread_timeout": "thin wrapper over thread::park_timeout",
}


def m(method=None, path=None, callee=None):
    """matcher for a call event: method name regex, arg0 path regex, callee substring."""
    mr = re.compile(method) if method else None
    pr = re.compile(path) if path else None

    def f(b, e):
        if e.kind != "call":
            return False
        if mr and not mr.fullmatch(e.method or ""):
            return False
        if callee and callee not in e.callee_full:
            return False
        if pr:
            if not e.args:
                return False
            if not pr.search(b.path_of_operand(e.args[0])):
                return False
        return True
    return f


def assign_to(path):
    pr = re.compile(path)

    def f(b, e):
        return e.kind == "assign" and bool(e.data["p"][1]) and pr.search(b.path_of_place(e.data["p"])) is not None
    return f


def any_of(*fs):
    return lambda b, e: any(f(b, e) for f in fs)


FENCE = lambda b, e: e.is_fence  # noqa: E731

# ---------------------------------------------------------------------------
# slot table: body-id regex -> protocol spec
#   kind "fence": reg / barrier / recheck           (register, SeqCst fence, re-check, park)
#   kind "lock":  lock / recheck / reg              (re-check and register under one guard, release, park)
#   kind "state": park inside a loop on an Acquire load of the waiter's state byte
# ---------------------------------------------------------------------------
TABLE = [
    (r"fibre::spsc::bounded_sync::BoundedSync(Sender|Receiver)::<T>::(send|send_batch|send_batch_mut|recv|recv_timeout)$",
     dict(kind="fence", family="spsc", reg=m(r"register", callee="SpscShared"), barrier=m(r"pre_park_fence"),
          recheck=m(r"push|pop|write_batch|read_batch", callee="spsc::shared"),
          why="spsc: register waiter slot, SeqCst fence (pre_park_fence), retry the ring op, park")),
    (r"fibre::mpsc::bounded_v3::consumer::Receiver::<T>::(recv|recv_timeout|recv_batch_mut)$",
     dict(kind="fence", family="mpsc-bounded-recv", reg=m(r"register_sync_recv"), barrier=FENCE,
          recheck=m(r"deq_once|deq_run|drain_straggler"),
          why="mpsc bounded consumer: register_sync_recv, fence(SeqCst), dequeue attempt, park")),
    (r"fibre::mpsc::bounded_v3::producer::Sender::<T>::send_inner$",
     dict(kind="fence", family="mpsc-bounded-send", reg=m(r"register_sync_send"), barrier=FENCE, recheck=m(r"try_send_now"),
          why="mpsc bounded producer: register_sync_send, fence(SeqCst), try_send_now, park")),
    (r"fibre::mpsc::bounded_v3::producer::Sender::<T>::wait_for_window$",
     dict(kind="fence", family="mpsc-bounded-send", reg=m(r"register_sync_send"), barrier=FENCE, recheck=m(r"window_open"),
          why="mpsc bounded batch producer: register, fence, window_open, park")),
    (r"fibre::mpsc::unbounded_v3::consumer::Receiver::<T>::(recv|recv_timeout|recv_batch_mut)$",
     dict(kind="fence", family="mpsc-unbounded-recv", reg=m(r"register_sync_recv"), barrier=m(r"pre_park_fence"),
          recheck=m(r"try_recv_internal|try_recv_batch_internal"),
          why="mpsc unbounded consumer: register_sync_recv, pre_park_fence, try_recv, park")),
    (r"fibre::spmc::ring_buffer::BoundedSyncReceiver::<T>::(recv|recv_timeout|recv_batch_mut)$",
     dict(kind="fence", family="spmc-recv", reg=m(r"push", path=r"lock$|wakers"), barrier=None,
          recheck=m(r"try_recv_internal|try_recv_batch_internal"),
          why="spmc consumer: push waker under the slot's wakers mutex (the producer drains it under the same mutex after publishing head), re-check, park")),
    (r"fibre::spmc::ring_buffer::BoundedSyncSender::<T>::(send|park_until_not_full)$",
     dict(kind="fence", family="spmc-send", reg=m(r"store", path=r"producer_parked_sync_flag$"), barrier=FENCE,
          recheck=m(None, path=r"tails_reader$", callee="left_right::ReadHandle"),
          why="spmc producer: store PARKED, fence(SeqCst), re-read consumer cursors, park")),
    (r"fibre::spmc::topic::mailbox::MailboxConsumer::<T>::(recv_sync|recv_timeout_sync)$",
     dict(kind="lock", family="mailbox", lock=m(r"lock", path=r"\.internal$"), recheck=m(r"pop_front", path=r"\.buffer$"),
          reg=assign_to(r"\.consumer_waiter$"),
          why="topic mailbox: pop and waiter registration under the mailbox mutex, unlock, park")),
    (r"fibre::mpmc_v2::sync_impl::(send_sync|send_batch_iter_sync)$",
     dict(kind="lock", family="mpmc-send", lock=m(r"lock", path=r"\.internal$"), recheck=m(r"is_full|len", callee="MpmcChannelInternal"),
          reg=m(r"push_back", path=r"waiting_sync_senders$"),
          why="mpmc bounded: re-check fullness and enqueue the waiter under the channel mutex, unlock, wait")),
    (r"fibre::mpmc_v2::sync_impl::(recv_sync|recv_batch_sync|recv_timeout_sync)$",
     dict(kind="lock", family="mpmc-recv", lock=m(r"lock", path=r"\.internal$"), recheck=m(r"is_empty", path=r"\.queue$"),
          reg=m(r"push_back", path=r"waiting_sync_receivers$"),
          why="mpmc bounded: re-check emptiness and enqueue the waiter under the channel mutex, unlock, wait")),
    (r"fibre::mpmc_v2::unbounded::shared::UnboundedShared::<T>::recv_sync_internal$",
     dict(kind="fence", family="mpmc-unbounded-recv", reg=m(r"register_waiter"), barrier=FENCE, recheck=m(r"pop_locked"),
          why="mpmc unbounded: register_waiter under the consumer lock, fence(SeqCst), pop_locked, park")),
    (r"fibre::internal::rendezvous::RendezvousShared::<T, R>::(recv_timeout|recv_blocking)$",
     dict(kind="lock", family="rendezvous-recv", lock=m(r"lock", path=r"\.core$"), recheck=m(r"pop_front", path=r"sender_waiters$"),
          reg=m(r"push_receiver"),
          why="rendezvous receiver: look for a parked sender and enqueue own record under the core mutex, unlock, park")),
    (r"fibre::internal::rendezvous::RendezvousShared::<T, R>::send_blocking$",
     dict(kind="lock", family="rendezvous-send", lock=m(r"lock", path=r"\.core$"), recheck=m(r"pop_receiver"),
          reg=m(r"push_back", path=r"sender_waiters$"),
          why="rendezvous sender: look for a parked receiver and enqueue own record under the core mutex, unlock, park")),
    (r"fibre::internal::rendezvous::park_until_terminal$",
     dict(kind="state", family="rendezvous-wait", state=m(r"load", path=r"^state$"),
          why="park only while the waiter state byte (Acquire) is still WAITING; re-read after every wake")),
    (r"fibre::mpmc_v2::backoff::adaptive_wait$",
     dict(kind="state", family="mpmc-wait", state=m(r"call", callee="Fn<()>>::call"),
          why="park only after re-evaluating the caller's condition; re-evaluate after every wake")),
    (r"fibre::sync::(mutex::HybridMutex|rwlock::HybridRwLock)::<T>::(lock_slow|read_slow|write_slow)$",
     dict(kind="fence", family="hybrid-lock", reg=m(r"link_back"), barrier=m(r"fetch_or", path=r"\.state$"),
          recheck=m(r"load|compare_exchange(_weak)?", path=r"self\.state$"),
          why="hybrid lock: link the node, publish HAS_QUEUED by RMW, re-read the state word (and re-attempt the acquisition CAS when free), park", prop="C10")),
    (r"fibre_cache::handles::sync::Cache::<K, V, H>::load_value_blocking$",
     dict(kind="lock", family="cache-loader", lock=m(r"lock", path=r"\.inner$"), recheck=None, reg=m(r"push_back", path=r"\.waiters$"),
          why="cache loader: register under the LoadFuture mutex on the Computing arm (C15-4), unlock, park", prop="C15")),
]


def spec_for(bid):
    for rx, spec in TABLE:
        if re.search(rx, bid):
            return spec
    return None


def park_sites(P, prefixes=("fibre::", "fibre_cache::")):
    from rules import common
    out = []
    for b in P.bodies.values():
        if not b.id.startswith(prefixes) or not common.in_scope(b.id) or "::tests::" in b.id or "miri_tests" in b.id:
            continue
        ps = [e for e in b.calls() if e.callee in PARK_PRIMS]
        if ps:
            out.append((b, ps))
    return out


def _pos(b, pred):
    return [e for e in b.events if pred(b, e)]


def check_site(P, b, parks, spec):
    """returns (ok, detail, witness)"""
    wit = []
    kind = spec["kind"]
    if kind == "fence":
        regs = _pos(b, spec["reg"])
        recs = _pos(b, spec["recheck"])
        bars = _pos(b, spec["barrier"]) if spec.get("barrier") else None
        if not regs:
            return False, "the function parks but never registers itself with the notifier (registration call not found)", wit
        if not recs:
            return False, "no re-check of the awaited condition found", wit
        if spec.get("barrier") and not bars:
            return False, "no barrier (SeqCst fence / RMW) between registration and re-check: the notifier's gate read and this thread's re-check can both miss", wit
        for k in parks:
            reach_any = False
            for r in regs:
                # some path from r to k at all?
                if k.pos not in b.pos_reach_set(r.pos):
                    continue
                reach_any = True
                if bars is not None:
                    if k.pos in b.pos_reach_set(r.pos, removed=frozenset(x.pos for x in bars) | frozenset(y.pos for y in regs if y is not r)):
                        return False, f"a path from the registration at {r.loc} reaches the park at {k.loc} without the barrier", [f"reg {r.loc}", f"park {k.loc}"]
                    for f in bars:
                        if k.pos in b.pos_reach_set(f.pos, removed=frozenset(x.pos for x in recs) | frozenset(y.pos for y in bars if y is not f)):
                            return False, f"a path from the barrier at {f.loc} reaches the park at {k.loc} without re-checking the condition (lost-wakeup window)", [f"barrier {f.loc}", f"park {k.loc}"]
                else:
                    if k.pos in b.pos_reach_set(r.pos, removed=frozenset(x.pos for x in recs) | frozenset(y.pos for y in regs if y is not r)):
                        return False, f"a path from the registration at {r.loc} reaches the park at {k.loc} without re-checking the condition (lost-wakeup window)", [f"reg {r.loc}", f"park {k.loc}"]
            if not reach_any:
                return False, f"the park at {k.loc} is not preceded by a registration on any path", [f"park {k.loc}"]
        wit = [f"register {regs[0].loc}"] + ([f"barrier {bars[0].loc}"] if bars else []) + [f"re-check {recs[0].loc}"] + [f"park {k.loc}" for k in parks]
        return True, "register -> " + ("barrier -> " if bars else "") + "re-check -> park on every path", wit
    if kind == "lock":
        locks = _pos(b, spec["lock"])
        regs = _pos(b, spec["reg"])
        recs = _pos(b, spec["recheck"]) if spec.get("recheck") else None
        if not locks:
            return False, "no acquisition of the protocol's mutex found", wit
        if not regs:
            return False, "the function parks but never enqueues/registers itself under the mutex", wit
        held, kills, _ = mir.guards_held(b, [(l, None) for l in locks])
        for r in regs:
            if r.pos not in held:
                return False, f"waiter registration at {r.loc} is not under the protocol's mutex", [f"reg {r.loc}"]
        if recs is not None:
            if not recs:
                return False, "no re-check of the awaited condition under the mutex", wit
            under = [c for c in recs if c.pos in held]
            if not under:
                return False, "the condition is not re-checked under the mutex that the notifier takes", wit
            for r in regs:
                # on every path from an acquisition to this registration a re-check under the lock occurs
                ok = False
                for l in locks:
                    if r.pos in b.pos_reach_set(l.pos) and r.pos not in b.pos_reach_set(l.pos, removed=frozenset(c.pos for c in under) | frozenset(x.pos for x in locks if x is not l)):
                        ok = True
                if not ok:
                    return False, f"registration at {r.loc} can be reached from the lock acquisition without re-checking the condition under that lock", [f"reg {r.loc}"]
        for k in parks:
            if k.pos in held:
                return False, f"parks at {k.loc} while still holding the mutex the notifier needs", [f"park {k.loc}"]
            if not any(k.pos in b.pos_reach_set(r.pos) for r in regs):
                return False, f"park at {k.loc} is not preceded by a registration", [f"park {k.loc}"]
        wit = [f"lock {locks[0].loc}"] + ([f"re-check {recs[0].loc}"] if recs else []) + [f"register {regs[0].loc}"] + [f"park {k.loc}" for k in parks]
        return True, "re-check and register under the mutex, release, park", wit
    if kind == "state":
        sts = _pos(b, spec["state"])
        if not sts:
            return False, "no read of the wake condition", wit
        for k in parks:
            if not b.dominated_by_any(k.pos, {s.pos for s in sts}):
                return False, f"parks at {k.loc} without having read the wake condition", wit
            from rules import cachelib
            if not cachelib.all_paths_pass(b, [k.pos], [s.pos for s in sts], strict=True):
                return False, f"after the park at {k.loc} a path returns without re-reading the wake condition (a spurious unpark would be taken for the wake)", wit
        return True, "park only after reading the condition; re-read after every wake", [f"cond {sts[0].loc}"] + [f"park {k.loc}" for k in parks]
    return False, "unknown template", wit


# ---------------------------------------------------------------------------
# publish => notify rows (rule family R2). Each row: bodies (regex on id), the publishing event,
# the label of the success edge of the publish result (None: unconditional), the notifier that
# must follow on every path to the function's exit, and exemptions.
# ---------------------------------------------------------------------------
def atomic_store_on(path_rx, min_release=True):
    pr = re.compile(path_rx)

    def f(b, e):
        if not (e.kind == "call" and e.is_atomic and e.method in ("store", "swap", "fetch_add") and e.args):
            return False
        return pr.search(b.path_of_operand(e.args[0])) is not None
    return f


NOTIFY_ROWS = [
    dict(id="spsc-push", scope=r"^fibre::spsc::", publish=m(r"push", callee="spsc::shared::Ring"), label="Ok", notify=m(r"notify_receivers"),
         may={r"SpscShared::<T>::write_batch$": "notifies once after the loop when sent > 0; a successful push implies sent > 0"},
         why="spsc: a pushed item must be followed by notify_receivers (the consumer may be parked)"),
    dict(id="spsc-pop", scope=r"^fibre::spsc::", publish=m(r"pop", callee="spsc::shared::Ring"), label="Some", notify=m(r"notify_senders"),
         may={r"SpscShared::<T>::read_batch$": "notifies once after the loop when got > 0",
              r"Ring<T> as core::ops::drop::Drop>::drop$": "teardown drain: no sender can be parked on a ring being dropped"},
         why="spsc: a popped item frees space; notify_senders must follow"),
    dict(id="mpsc-unbounded-publish", scope=r"^fibre::mpsc::unbounded_v3::", publish=m(r"publish", callee="MpscShared"), label=None, notify=m(r"notify_receiver"),
         may={}, why="mpsc unbounded: chain publish must be followed by notify_receiver"),
    dict(id="mpmc-unbounded-publish", scope=r"^fibre::mpmc_v2::unbounded::", publish=m(r"publish", callee="UnboundedShared"), label=None, notify=m(r"notify_receivers"),
         may={}, why="mpmc unbounded: chain publish must be followed by notify_receivers"),
    dict(id="mpsc-bounded-slot", scope=r"^fibre::mpsc::bounded_v3::shared::Shared::<T>::(write_slot|resolve_run)$", publish=atomic_store_on(r"\.state$"), label=None,
         notify=m(r"notify_receiver"), may={}, why="mpsc bounded: a slot state store (SET/SKIP) must be followed by notify_receiver"),
    dict(id="mpsc-bounded-progress", scope=r"^fibre::mpsc::bounded_v3::shared::Shared::<T>::publish_progress$", publish=atomic_store_on(r"\.progress$"), label=None,
         notify=m(r"notify_senders"), may={}, why="mpsc bounded: published consumer progress must be followed by notify_senders"),
    dict(id="spmc-consumer-tail", scope=r"^fibre::spmc::ring_buffer::try_recv(_batch)?_internal$", publish=atomic_store_on(r"^consumer_tail_idx$"), label=None,
         notify=m(r"wake_producer"), may={}, why="spmc: advancing a consumer cursor frees space; wake_producer must follow"),
    dict(id="spmc-receiver-detach", scope=r"^fibre::spmc::ring_buffer::drop_receiver_internal$", publish=m(r"modify", path=r"tails_writer$"), label=None,
         notify=m(r"wake_producer"), may={},
         why="spmc: removing a receiver's cursor from the tails list can raise the minimum tail (space appears) or disconnect the channel; wake_producer must follow on every path"),
    dict(id="spmc-producer-head", scope=r"^fibre::spmc::ring_buffer::SpmcShared::<T>::(try_send_internal|write_batch_unchecked)$", publish=atomic_store_on(r"^self\.head$"), label=None,
         notify=m(r"drain", callee="Vec::<core::task::wake::Waker>"),
         may={r"::write_batch_unchecked$": "drains the waker list of each written slot in a loop over 0..written; zero iterations only when nothing was published"},
         why="spmc: a published head must be followed by draining the slot's waker list"),
    dict(id="mailbox-deliver", scope=r"^fibre::spmc::topic::mailbox::MailboxProducer::<T>::deliver$", publish=m(r"push_back", path=r"\.buffer$"), label=None,
         notify=m(r"wake_consumer"), may={}, why="topic mailbox: a delivered message must be followed by wake_consumer"),
    dict(id="rendezvous-fulfill", scope=r"^fibre::internal::rendezvous::", publish=m(r"fulfill_receiver|fulfill_sender"), label=None,
         notify=m(r"wake", callee="WakeHandle"), may={r"::disconnect_all$": "collects wake handles and fires them after the lock is released"},
         why="rendezvous: a fulfilled waiter must be woken on every path"),
]


def check_notify_rows(P):
    """yield (row, body, publish event, status, detail)"""
    from rules import cachelib, common
    out = []
    for row in NOTIFY_ROWS:
        srx = re.compile(row["scope"])
        n = 0
        for b in P.bodies.values():
            if not (srx.search(b.id) or srx.search(b.id.replace("fibre::<", "fibre::", 1))) or not common.in_scope(b.id) or "::tests::" in b.id or "::test_" in b.id:
                continue
            pubs = [e for e in b.events if row["publish"](b, e)]
            if not pubs:
                continue
            nots = [e for e in b.events if row["notify"](b, e)]
            may = None
            for rx, why in row["may"].items():
                if re.search(rx, b.id):
                    may = why
            for p in pubs:
                n += 1
                if may is not None:
                    if "teardown" in may or "no sender" in may:
                        out.append((row, b, p, "holds", "exempt: " + may, False))
                        continue
                    ok = any(x.pos in b.pos_reach_set(p.pos) for x in nots)
                    detail = ("may-follow: " + may) if ok else f"no {row['id']} notifier reachable after the publish at {p.loc}"
                    if ok and "> 0" in may:
                        # "notifies once after the loop when <count> > 0": the only branch that may skip the notifier is the zero outcome of a comparison of a
                        # counter with the constant 0; any other condition on the notify (a fullness snapshot, a flag) re-opens the lost-wakeup window
                        excused = set()
                        for blk in range(len(b.blocks)):
                            if b.is_cleanup(blk) or b.term(blk)["k"] != "switch":
                                continue
                            ss = b.switch_source(blk)
                            if ss and ss.get("kind") == "cmp" and ss["op"] in ("Gt", "Ne", "Lt", "Eq"):
                                ks = [(b.const_of_operand(ss["a"]) or {}).get("v"), (b.const_of_operand(ss["b"]) or {}).get("v")]
                                if 0 in ks:
                                    zero_label = "true" if ss["op"] == "Eq" else "false"
                                    if ss.get("neg"):
                                        zero_label = "false" if zero_label == "true" else "true"
                                    excused |= set(b.edges_by_label(blk).get(zero_label, []))
                        starts = [p.pos]
                        if row["label"]:
                            es = cachelib.result_switch_edges(b, p, row["label"])
                            if es:
                                starts = [(t, 0) for _, t in es]
                        thr = frozenset(x.pos for x in nots)
                        exits = set(b.exits())
                        if any((st not in thr) and (b.pos_reach_set(st, removed=thr, removed_edges=frozenset(excused), strict=False) & exits) for st in starts):
                            ok = False
                            detail = (f"after the successful {row['id']} at {p.loc} a path reaches the exit without the notifier although items were transferred: the notify is "
                                      "conditional on something other than `count > 0` (" + row["why"] + ")")
                    out.append((row, b, p, "holds" if ok else "violated", detail, True))
                    continue
                starts = [p.pos]
                strict = True
                if row["label"]:
                    es = cachelib.result_switch_edges(b, p, row["label"])
                    if es:
                        starts = [(t, 0) for _, t in es]
                        strict = False
                ok = bool(nots) and cachelib.all_paths_pass(b, starts, [x.pos for x in nots], strict=strict)
                out.append((row, b, p, "holds" if ok else "violated",
                            f"notifier at {nots[0].loc} follows on every path" if ok else f"a path from the publish at {p.loc} reaches the exit without the notifier ({row['why']})", True))
        if n == 0:
            out.append((row, None, None, "unclassified", f"row {row['id']} matched no publish site (renamed?)", True))
    return out
