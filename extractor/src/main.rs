// fibre-facts: a rustc_private driver that serialises pre-coroutine-transform MIR
// (mir_promoted) of every body of a workspace crate, plus its ADTs and impls, as JSON.
// It judges nothing: rules live in /verif/engine. See DESIGN.md §2.1.
#![feature(rustc_private)]

extern crate rustc_abi;
extern crate rustc_data_structures;
extern crate rustc_driver;
extern crate rustc_hir;
extern crate rustc_infer;
extern crate rustc_interface;
extern crate rustc_middle;
extern crate rustc_session;
extern crate rustc_span;
extern crate rustc_trait_selection;

mod json;
mod mir_dump;
mod types_dump;

use std::sync::{Mutex, OnceLock};

use rustc_data_structures::fx::FxIndexMap;
use rustc_driver::Compilation;
use rustc_hir::def_id::LocalDefId;
use rustc_interface::interface::Config;
use rustc_middle::ty::TyCtxt;
use rustc_span::ErrorGuaranteed;

type BorrowckProvider = for<'tcx> fn(
  TyCtxt<'tcx>,
  LocalDefId,
) -> Result<
  &'tcx FxIndexMap<LocalDefId, rustc_middle::ty::DefinitionSiteHiddenType<'tcx>>,
  ErrorGuaranteed,
>;

static ORIG: OnceLock<BorrowckProvider> = OnceLock::new();
pub static BODIES: Mutex<Vec<String>> = Mutex::new(Vec::new());

fn my_borrowck<'tcx>(
  tcx: TyCtxt<'tcx>,
  def: LocalDefId,
) -> Result<
  &'tcx FxIndexMap<LocalDefId, rustc_middle::ty::DefinitionSiteHiddenType<'tcx>>,
  ErrorGuaranteed,
> {
  if wanted() {
    let mut defs = vec![def];
    for d in tcx.nested_bodies_within(def) {
      defs.push(d);
    }
    for d in defs {
      let (body, _) = tcx.mir_promoted(d);
      let body = body.borrow();
      let s = mir_dump::dump_body(tcx, d, def, &body);
      BODIES.lock().unwrap().push(s);
    }
  }
  (ORIG.get().unwrap())(tcx, def)
}

fn wanted() -> bool {
  std::env::var_os("VERIF_FACTS_DIR").is_some()
}

struct Cb;

impl rustc_driver::Callbacks for Cb {
  fn config(&mut self, config: &mut Config) {
    config.override_queries = Some(|_sess, providers| {
      ORIG.set(providers.queries.mir_borrowck).ok();
      providers.queries.mir_borrowck = my_borrowck;
    });
  }

  fn after_analysis<'tcx>(
    &mut self,
    _compiler: &rustc_interface::interface::Compiler,
    tcx: TyCtxt<'tcx>,
  ) -> Compilation {
    if !wanted() {
      return Compilation::Continue;
    }
    let dir = std::env::var("VERIF_FACTS_DIR").unwrap();
    let tag = std::env::var("VERIF_FACTS_TAG").unwrap_or_default();
    let krate = tcx.crate_name(rustc_hir::def_id::LOCAL_CRATE).to_string();
    let only = std::env::var("VERIF_FACTS_CRATES").unwrap_or_default();
    if !only.is_empty() && !only.split(',').any(|c| c == krate) {
      return Compilation::Continue;
    }
    // skip build scripts / probes
    if krate == "build_script_build" || krate.starts_with("___") {
      return Compilation::Continue;
    }
    let types = types_dump::dump_types(tcx);
    let bodies = std::mem::take(&mut *BODIES.lock().unwrap());
    let mut out = String::with_capacity(1 << 24);
    out.push_str("{\"crate\":");
    json::push_str(&mut out, &krate);
    out.push_str(",\"tag\":");
    json::push_str(&mut out, &tag);
    out.push_str(",\"cfg\":[");
    {
      let mut first = true;
      let mut cfgs: Vec<String> = tcx
        .sess
        .config
        .iter()
        .filter_map(|(k, v)| {
          let k = k.as_str();
          if k == "feature" {
            v.map(|v| format!("feature={}", v.as_str()))
          } else if k == "test" || k == "loom" || k == "miri" {
            Some(k.to_string())
          } else {
            None
          }
        })
        .collect();
      cfgs.sort();
      for c in cfgs {
        if !first {
          out.push(',');
        }
        first = false;
        json::push_str(&mut out, &c);
      }
    }
    out.push_str("],");
    out.push_str(&types);
    out.push_str(",\"bodies\":[");
    let mut first = true;
    for b in bodies {
      if !first {
        out.push(',');
      }
      first = false;
      out.push_str(&b);
    }
    out.push_str("]}");
    let name = if tag.is_empty() { format!("{krate}.json") } else { format!("{krate}+{tag}.json") };
    let path = std::path::Path::new(&dir).join(name);
    // one write per compiler process (tmp + rename)
    let tmp = path.with_extension(format!("tmp{}", std::process::id()));
    std::fs::write(&tmp, out).expect("write facts");
    std::fs::rename(&tmp, &path).expect("rename facts");
    Compilation::Continue
  }
}

fn main() {
  // RUSTC_WORKSPACE_WRAPPER passes: <wrapper> <rustc> <args...>; drop argv[1].
  let mut args: Vec<String> = std::env::args().collect();
  if args.len() > 1 && (args[1].ends_with("rustc") || args[1].contains("/rustc")) {
    args.remove(1);
  }
  let code = rustc_driver::catch_with_exit_code(move || {
    rustc_driver::run_compiler(&args, &mut Cb);
  });
  if code != std::process::ExitCode::SUCCESS {
    std::process::exit(1);
  }
}
