// minimal JSON writer (no external crates available to a rustc_private driver here)

pub fn push_str(out: &mut String, s: &str) {
  out.push('"');
  for c in s.chars() {
    match c {
      '"' => out.push_str("\\\""),
      '\\' => out.push_str("\\\\"),
      '\n' => out.push_str("\\n"),
      '\r' => out.push_str("\\r"),
      '\t' => out.push_str("\\t"),
      c if (c as u32) < 0x20 => out.push_str(&format!("\\u{:04x}", c as u32)),
      c => out.push(c),
    }
  }
  out.push('"');
}

pub struct Obj<'a> {
  out: &'a mut String,
  first: bool,
}

impl<'a> Obj<'a> {
  pub fn new(out: &'a mut String) -> Self {
    out.push('{');
    Obj { out, first: true }
  }
  fn key(&mut self, k: &str) {
    if !self.first {
      self.out.push(',');
    }
    self.first = false;
    push_str(self.out, k);
    self.out.push(':');
  }
  pub fn s(&mut self, k: &str, v: &str) -> &mut Self {
    self.key(k);
    push_str(self.out, v);
    self
  }
  pub fn os(&mut self, k: &str, v: Option<&str>) -> &mut Self {
    self.key(k);
    match v {
      Some(v) => push_str(self.out, v),
      None => self.out.push_str("null"),
    }
    self
  }
  pub fn n(&mut self, k: &str, v: i128) -> &mut Self {
    self.key(k);
    self.out.push_str(&v.to_string());
    self
  }
  pub fn b(&mut self, k: &str, v: bool) -> &mut Self {
    self.key(k);
    self.out.push_str(if v { "true" } else { "false" });
    self
  }
  pub fn raw(&mut self, k: &str, v: &str) -> &mut Self {
    self.key(k);
    self.out.push_str(v);
    self
  }
  pub fn end(&mut self) {
    self.out.push('}');
  }
}

pub fn arr<I: IntoIterator<Item = String>>(items: I) -> String {
  let mut s = String::from("[");
  let mut first = true;
  for it in items {
    if !first {
      s.push(',');
    }
    first = false;
    s.push_str(&it);
  }
  s.push(']');
  s
}

pub fn q(s: &str) -> String {
  let mut o = String::new();
  push_str(&mut o, s);
  o
}
