use crate::json::{self, q, Obj};
use rustc_hir::def::DefKind;
use rustc_hir::def_id::{DefId, LocalDefId};
use rustc_middle::mir::*;
use rustc_middle::ty::print::{with_no_trimmed_paths, with_no_visible_paths};
use rustc_middle::ty::{self, GenericArgsRef, Ty, TyCtxt, TypingEnv};
use rustc_span::{ExpnKind, Span};

pub fn path_of<'tcx>(tcx: TyCtxt<'tcx>, did: DefId) -> String {
  let s = with_no_visible_paths!(with_no_trimmed_paths!(tcx.def_path_str(did)));
  if did.is_local() {
    format!("{}::{}", tcx.crate_name(did.krate), s)
  } else {
    s
  }
}

pub fn path_with_args<'tcx>(tcx: TyCtxt<'tcx>, did: DefId, args: GenericArgsRef<'tcx>) -> String {
  let s = with_no_visible_paths!(with_no_trimmed_paths!(tcx.def_path_str_with_args(did, args)));
  if did.is_local() {
    format!("{}::{}", tcx.crate_name(did.krate), s)
  } else {
    s
  }
}

pub fn ty_str<'tcx>(ty: Ty<'tcx>) -> String {
  with_no_visible_paths!(with_no_trimmed_paths!(ty.to_string()))
}

const WRAPPERS: &[&str] = &[
  "alloc::boxed::Box",
  "alloc::sync::Arc",
  "alloc::rc::Rc",
  "alloc::sync::Weak",
  "alloc::rc::Weak",
  "core::option::Option",
  "core::pin::Pin",
  "core::mem::manually_drop::ManuallyDrop",
  "core::mem::maybe_uninit::MaybeUninit",
  "core::cell::UnsafeCell",
  "core::ptr::non_null::NonNull",
  "fibre::internal::cache_padded::CachePadded",
  "fibre::internal::CachePadded",
  "crossbeam_utils::cache_padded::CachePadded",
];

/// Peel references, raw pointers and a fixed set of transparent wrappers down to an ADT path.
pub fn peel_adt<'tcx>(tcx: TyCtxt<'tcx>, mut ty: Ty<'tcx>) -> Option<String> {
  for _ in 0..12 {
    match ty.kind() {
      ty::Ref(_, t, _) => ty = *t,
      ty::RawPtr(t, _) => ty = *t,
      ty::Adt(def, args) => {
        let p = path_of(tcx, def.did());
        if WRAPPERS.iter().any(|w| *w == p) || p.ends_with("::CachePadded") {
          if let Some(t) = args.types().next() {
            ty = t;
            continue;
          }
        }
        return Some(p);
      }
      _ => return None,
    }
  }
  None
}

pub fn span_loc<'tcx>(tcx: TyCtxt<'tcx>, span: Span) -> (String, usize) {
  let mut sp = span;
  // walk out of macro expansions to the outermost call site
  let mut guard = 0;
  while sp.from_expansion() && guard < 32 {
    sp = sp.source_callsite();
    guard += 1;
  }
  let sm = tcx.sess.source_map();
  let loc = sm.lookup_char_pos(sp.lo());
  let name = match &loc.file.name {
    rustc_span::FileName::Real(r) => match r.local_path() {
      Some(p) => p.to_string_lossy().to_string(),
      None => format!("{:?}", r),
    },
    other => format!("{:?}", other),
  };
  (name, loc.line)
}

pub fn expn_tag(span: Span) -> Option<String> {
  if !span.from_expansion() {
    return None;
  }
  let d = span.ctxt().outer_expn_data();
  Some(match d.kind {
    ExpnKind::Macro(_, name) => format!("m:{}", name),
    ExpnKind::Desugaring(k) => format!("d:{:?}", k),
    ExpnKind::AstPass(k) => format!("a:{:?}", k),
    ExpnKind::Root => "root".to_string(),
  })
}

/// Dotted name of a captured place: `self.shared` for a precise capture of (*self).shared.
pub fn capture_name<'tcx>(tcx: TyCtxt<'tcx>, c: &ty::CapturedPlace<'tcx>) -> String {
  let mut s = c.var_ident.name.to_string();
  for (i, proj) in c.place.projections.iter().enumerate() {
    if let rustc_middle::hir::place::ProjectionKind::Field(f, v) = proj.kind {
      let before = c.place.ty_before_projection(i);
      let name = match before.kind() {
        ty::Adt(def, _) => def.variant(v).fields.iter().nth(f.as_usize()).map(|fd| fd.name.to_string()),
        _ => None,
      };
      s.push('.');
      s.push_str(&name.unwrap_or_else(|| f.as_usize().to_string()));
    }
  }
  let _ = tcx;
  s
}

struct Cx<'a, 'tcx> {
  tcx: TyCtxt<'tcx>,
  body: &'a Body<'tcx>,
  def: LocalDefId,
  root: LocalDefId,
  env: TypingEnv<'tcx>,
}

impl<'a, 'tcx> Cx<'a, 'tcx> {
  fn place(&self, p: &Place<'tcx>) -> String {
    let mut s = format!("[{},[", p.local.as_u32());
    let mut first = true;
    let mut cur = PlaceTy::from_ty(self.body.local_decls[p.local].ty);
    for elem in p.projection.iter() {
      if !first {
        s.push(',');
      }
      first = false;
      let e = match elem {
        ProjectionElem::Deref => "*".to_string(),
        ProjectionElem::Field(f, _) => format!(".{}", self.field_name(cur, f.as_usize())),
        ProjectionElem::Index(_) | ProjectionElem::ConstantIndex { .. } | ProjectionElem::Subslice { .. } => {
          "[]".to_string()
        }
        ProjectionElem::Downcast(name, _) => format!("@{}", name.map(|n| n.to_string()).unwrap_or_default()),
        ProjectionElem::OpaqueCast(_) => "opaque".to_string(),
        ProjectionElem::UnwrapUnsafeBinder(_) => "unbinder".to_string(),
      };
      json::push_str(&mut s, &e);
      cur = cur.projection_ty(self.tcx, elem);
    }
    s.push_str("]]");
    s
  }

  fn field_name(&self, pty: PlaceTy<'tcx>, idx: usize) -> String {
    match pty.ty.kind() {
      ty::Adt(def, _) => {
        let v = match pty.variant_index {
          Some(v) => def.variant(v),
          None => {
            if def.is_enum() {
              return idx.to_string();
            }
            def.non_enum_variant()
          }
        };
        v.fields.iter().nth(idx).map(|f| f.name.to_string()).unwrap_or_else(|| idx.to_string())
      }
      ty::Closure(did, _) | ty::Coroutine(did, _) | ty::CoroutineClosure(did, _) => {
        if let Some(l) = did.as_local() {
          let caps = self.tcx.closure_captures(l);
          if let Some(c) = caps.get(idx) {
            return format!("^{}", capture_name(self.tcx, c));
          }
        }
        idx.to_string()
      }
      _ => idx.to_string(),
    }
  }

  fn constant(&self, c: &ConstOperand<'tcx>) -> String {
    let mut s = String::new();
    let mut o = Obj::new(&mut s);
    let ty = c.const_.ty();
    if let ty::FnDef(did, args) = ty.kind() {
      o.s("fn", &path_of(self.tcx, *did));
      o.s("full", &path_with_args(self.tcx, *did, args));
    } else {
      o.s("s", &with_no_visible_paths!(with_no_trimmed_paths!(format!("{}", c.const_))));
      o.s("ty", &ty_str(ty));
      // Evaluating a constant that lives inside the body being borrow-checked would
      // re-enter mir_borrowck (query cycle): only evaluate values and foreign named consts.
      let can_eval = match c.const_ {
        Const::Val(..) => true,
        Const::Unevaluated(u, _) => {
          o.s("path", &path_of(self.tcx, u.def));
          u.promoted.is_none()
            && match u.def.as_local() {
              Some(l) => self.tcx.typeck_root_def_id(l.to_def_id()) != self.root.to_def_id()
                && matches!(self.tcx.def_kind(u.def), DefKind::Const { .. } | DefKind::AssocConst { .. }),
              None => true,
            }
        }
        Const::Ty(..) => false,
      };
      if can_eval {
        if let Some(v) = c.const_.try_eval_scalar_int(self.tcx, self.env) {
          let size = v.size();
          let bits = v.to_bits(size);
          o.n("v", bits as i128);
        }
      }
    }
    o.end();
    s
  }

  fn operand(&self, op: &Operand<'tcx>) -> String {
    match op {
      Operand::Copy(p) => format!("{{\"c\":{}}}", self.place(p)),
      Operand::Move(p) => format!("{{\"m\":{}}}", self.place(p)),
      Operand::Constant(c) => format!("{{\"k\":{}}}", self.constant(c)),
      #[allow(unreachable_patterns)]
      _ => "{\"k\":{\"s\":\"?\"}}".to_string(),
    }
  }

  fn rvalue(&self, rv: &Rvalue<'tcx>) -> String {
    let mut s = String::new();
    let mut o = Obj::new(&mut s);
    match rv {
      Rvalue::Use(op, ..) => {
        o.s("k", "use").raw("o", &self.operand(op));
      }
      Rvalue::Ref(_, bk, p) => {
        o.s("k", "ref").raw("p", &self.place(p)).b("mut", matches!(bk, BorrowKind::Mut { .. }));
      }
      Rvalue::RawPtr(m, p) => {
        o.s("k", "rawptr").raw("p", &self.place(p)).b("mut", format!("{:?}", m).contains("Mut"));
      }
      Rvalue::CopyForDeref(p) => {
        o.s("k", "use").raw("o", &format!("{{\"c\":{}}}", self.place(p)));
      }
      Rvalue::Discriminant(p) => {
        o.s("k", "discr").raw("p", &self.place(p));
      }
      Rvalue::BinaryOp(op, ab) => {
        o.s("k", "bin").s("op", &format!("{:?}", op)).raw("a", &self.operand(&ab.0)).raw("b", &self.operand(&ab.1));
      }
      Rvalue::UnaryOp(op, a) => {
        o.s("k", "un").s("op", &format!("{:?}", op)).raw("a", &self.operand(a));
      }
      Rvalue::Cast(kind, op, ty) => {
        o.s("k", "cast").s("ck", &format!("{:?}", kind)).raw("o", &self.operand(op)).s("ty", &ty_str(*ty));
      }
      Rvalue::Aggregate(kind, ops) => {
        let opsj = json::arr(ops.iter().map(|x| self.operand(x)));
        match &**kind {
          AggregateKind::Adt(did, vidx, _args, _, _active) => {
            let adt = self.tcx.adt_def(*did);
            let v = adt.variant(*vidx);
            o.s("k", "agg").s("adt", &path_of(self.tcx, *did)).s("variant", &v.name.to_string());
            o.raw("fields", &json::arr(v.fields.iter().map(|f| q(&f.name.to_string()))));
            o.raw("ops", &opsj);
          }
          AggregateKind::Closure(did, _) | AggregateKind::Coroutine(did, _) | AggregateKind::CoroutineClosure(did, _) => {
            o.s("k", "closure").s("def", &path_of(self.tcx, *did));
            if let Some(l) = did.as_local() {
              let caps = self.tcx.closure_captures(l);
              o.raw("fields", &json::arr(caps.iter().map(|c| q(&capture_name(self.tcx, c)))));
            }
            o.raw("ops", &opsj);
          }
          AggregateKind::Tuple => {
            o.s("k", "tuple").raw("ops", &opsj);
          }
          AggregateKind::Array(_) => {
            o.s("k", "array").raw("ops", &opsj);
          }
          AggregateKind::RawPtr(..) => {
            o.s("k", "rawagg").raw("ops", &opsj);
          }
        }
      }
      Rvalue::Repeat(op, _) => {
        o.s("k", "repeat").raw("o", &self.operand(op));
      }
      other => {
        o.s("k", "other").s("s", &format!("{:?}", other));
      }
    }
    o.end();
    s
  }

  fn callee(&self, func: &Operand<'tcx>) -> String {
    let mut s = String::new();
    let mut o = Obj::new(&mut s);
    if let Some((did, args)) = func.const_fn_def() {
      let tcx = self.tcx;
      o.s("def", &path_of(tcx, did));
      o.s("full", &path_with_args(tcx, did, args));
      // trait method?
      if let Some(trait_did) = tcx.trait_of_assoc(did) {
        o.s("trait", &path_of(tcx, trait_did));
        o.s("method", &tcx.item_name(did).to_string());
        // try to resolve to the impl method
        if let Ok(Some(inst)) = ty::Instance::try_resolve(tcx, self.env, did, args) {
          let rdid = inst.def_id();
          if rdid != did {
            o.s("resolved", &path_of(tcx, rdid));
            o.s("resolved_full", &path_with_args(tcx, rdid, inst.args));
          }
        }
      } else if let Some(name) = tcx.opt_item_name(did) {
        o.s("method", &name.to_string());
      }
      if let Some(t) = args.types().next() {
        o.s("self_ty", &ty_str(t));
        if let Some(a) = peel_adt(tcx, t) {
          o.s("self_adt", &a);
        }
      }
      // inherent impl self type
      if let Some(imp) = tcx.inherent_impl_of_assoc(did) {
        let st = tcx.type_of(imp).instantiate(tcx, args).skip_norm_wip();
        o.s("impl_self_ty", &ty_str(st));
        if let Some(a) = peel_adt(tcx, st) {
          o.s("impl_self_adt", &a);
        }
      }
    } else {
      o.raw("indirect", &self.operand(func));
    }
    o.end();
    s
  }

  fn stmt_common(&self, o: &mut Obj<'_>, span: Span) {
    let (_f, line) = span_loc(self.tcx, span);
    o.n("l", line as i128);
    if let Some(x) = expn_tag(span) {
      o.s("x", &x);
    }
  }

  fn switch_info(&self, bb: &BasicBlockData<'tcx>, discr: &Operand<'tcx>) -> (String, Vec<(u128, String)>) {
    // returns (on-json, labels)
    let ty = discr.ty(&self.body.local_decls, self.tcx);
    if ty.is_bool() {
      return ("{\"kind\":\"bool\"}".to_string(), vec![(0, "false".into()), (1, "true".into())]);
    }
    // look for `_n = discriminant(place)` in this block
    if let Some(p) = discr.place() {
      if p.projection.is_empty() {
        for st in bb.statements.iter().rev() {
          if let StatementKind::Assign(b) = &st.kind {
            if b.0 == p {
              if let Rvalue::Discriminant(src) = &b.1 {
                let sty = src.ty(&self.body.local_decls, self.tcx).ty;
                if let ty::Adt(def, _) = sty.kind() {
                  let mut labels = vec![];
                  for (vi, d) in def.discriminants(self.tcx) {
                    labels.push((d.val, def.variant(vi).name.to_string()));
                  }
                  let on = format!(
                    "{{\"kind\":\"discr\",\"adt\":{},\"p\":{}}}",
                    q(&path_of(self.tcx, def.did())),
                    self.place(src)
                  );
                  return (on, labels);
                }
                if let ty::Coroutine(..) = sty.kind() {
                  return ("{\"kind\":\"coroutine_state\"}".to_string(), vec![]);
                }
              }
              break;
            }
          }
        }
      }
    }
    (format!("{{\"kind\":\"int\",\"ty\":{}}}", q(&ty_str(ty))), vec![])
  }

  fn terminator(&self, bb: &BasicBlockData<'tcx>) -> String {
    let term = bb.terminator();
    let mut s = String::new();
    let mut o = Obj::new(&mut s);
    let ub = |u: &UnwindAction| -> String {
      match u {
        UnwindAction::Cleanup(b) => b.as_u32().to_string(),
        _ => "null".to_string(),
      }
    };
    match &term.kind {
      TerminatorKind::Goto { target } => {
        o.s("k", "goto").n("t", target.as_u32() as i128);
      }
      TerminatorKind::SwitchInt { discr, targets } => {
        let (on, labels) = self.switch_info(bb, discr);
        o.s("k", "switch").raw("o", &self.operand(discr)).raw("on", &on);
        let mut ts = vec![];
        for (v, t) in targets.iter() {
          let label = labels.iter().find(|(lv, _)| *lv == v).map(|(_, n)| n.clone()).unwrap_or_default();
          ts.push(format!("[{},{},{}]", v, q(&label), t.as_u32()));
        }
        o.raw("targets", &json::arr(ts));
        o.n("otherwise", targets.otherwise().as_u32() as i128);
        // labels not explicitly listed (they go to otherwise)
        let listed: Vec<u128> = targets.iter().map(|(v, _)| v).collect();
        let rest: Vec<String> = labels.iter().filter(|(v, _)| !listed.contains(v)).map(|(_, n)| q(n)).collect();
        o.raw("otherwise_labels", &json::arr(rest));
      }
      TerminatorKind::Return => {
        o.s("k", "return");
      }
      TerminatorKind::Unreachable => {
        o.s("k", "unreachable");
      }
      TerminatorKind::UnwindResume | TerminatorKind::UnwindTerminate(_) => {
        o.s("k", "resume");
      }
      TerminatorKind::Drop { place, target, unwind, .. } => {
        o.s("k", "drop").raw("p", &self.place(place)).n("t", target.as_u32() as i128).raw("u", &ub(unwind));
        let pty = place.ty(&self.body.local_decls, self.tcx).ty;
        o.s("ty", &ty_str(pty));
      }
      TerminatorKind::Call { func, args, destination, target, unwind, .. } => {
        o.s("k", "call").raw("f", &self.callee(func));
        o.raw("args", &json::arr(args.iter().map(|a| self.operand(&a.node))));
        o.raw("d", &self.place(destination));
        match target {
          Some(t) => o.n("t", t.as_u32() as i128),
          None => o.raw("t", "null"),
        };
        o.raw("u", &ub(unwind));
      }
      TerminatorKind::TailCall { func, args, .. } => {
        o.s("k", "call").raw("f", &self.callee(func));
        o.raw("args", &json::arr(args.iter().map(|a| self.operand(&a.node))));
        o.raw("d", "[0,[]]").raw("t", "null").raw("u", "null");
      }
      TerminatorKind::Assert { target, cond, expected, unwind, .. } => {
        o.s("k", "assert").raw("o", &self.operand(cond)).b("expected", *expected).n("t", target.as_u32() as i128).raw("u", &ub(unwind));
      }
      TerminatorKind::Yield { value, resume, drop, .. } => {
        o.s("k", "yield").raw("o", &self.operand(value)).n("t", resume.as_u32() as i128);
        match drop {
          Some(d) => o.n("drop", d.as_u32() as i128),
          None => o.raw("drop", "null"),
        };
      }
      TerminatorKind::CoroutineDrop => {
        o.s("k", "coroutine_drop");
      }
      TerminatorKind::FalseEdge { real_target, imaginary_target } => {
        o.s("k", "goto").n("t", real_target.as_u32() as i128).n("imaginary", imaginary_target.as_u32() as i128);
      }
      TerminatorKind::FalseUnwind { real_target, .. } => {
        o.s("k", "goto").n("t", real_target.as_u32() as i128);
      }
      TerminatorKind::InlineAsm { targets, .. } => {
        o.s("k", "asm");
        o.raw("targets", &json::arr(targets.iter().map(|t| t.as_u32().to_string())));
      }
    }
    self.stmt_common(&mut o, term.source_info.span);
    o.end();
    s
  }

  fn statement(&self, st: &Statement<'tcx>) -> Option<String> {
    match &st.kind {
      StatementKind::Assign(b) => {
        let (p, rv) = &**b;
        let mut s = String::new();
        let mut o = Obj::new(&mut s);
        o.raw("p", &self.place(p)).raw("r", &self.rvalue(rv));
        self.stmt_common(&mut o, st.source_info.span);
        o.end();
        Some(s)
      }
      StatementKind::SetDiscriminant { place, variant_index } => {
        let mut s = String::new();
        let mut o = Obj::new(&mut s);
        o.raw("p", &self.place(place)).raw("r", &format!("{{\"k\":\"setdiscr\",\"v\":{}}}", variant_index.as_u32()));
        self.stmt_common(&mut o, st.source_info.span);
        o.end();
        Some(s)
      }
      StatementKind::StorageDead(l) => Some(format!("{{\"dead\":{}}}", l.as_u32())),
      _ => None,
    }
  }
}

pub fn dump_body<'tcx>(tcx: TyCtxt<'tcx>, def: LocalDefId, root: LocalDefId, body: &Body<'tcx>) -> String {
  let did = def.to_def_id();
  let env = TypingEnv::post_analysis(tcx, did);
  let cx = Cx { tcx, body, def, root, env };
  let _ = cx.def;
  let mut s = String::with_capacity(4096);
  let mut o = Obj::new(&mut s);
  o.s("id", &path_of(tcx, did));
  let dk = tcx.def_kind(did);
  let kind = match dk {
    DefKind::Fn => "fn",
    DefKind::AssocFn => "method",
    DefKind::Closure => {
      if tcx.is_coroutine(did) {
        "coroutine"
      } else {
        "closure"
      }
    }
    DefKind::Const { .. } | DefKind::AssocConst { .. } | DefKind::AnonConst | DefKind::InlineConst => "const",
    DefKind::Static { .. } => "static",
    _ => "other",
  };
  o.s("kind", kind);
  if def != root {
    o.s("root", &path_of(tcx, root.to_def_id()));
    let parent = tcx.local_parent(def);
    o.s("parent", &path_of(tcx, parent.to_def_id()));
  }
  if tcx.is_coroutine(did) {
    o.s("coroutine_kind", &format!("{:?}", tcx.coroutine_kind(did)));
  }
  // enclosing impl (of the typeck root)
  let root_did = root.to_def_id();
  if matches!(tcx.def_kind(root_did), DefKind::AssocFn | DefKind::AssocConst { .. }) {
    let container = tcx.local_parent(root).to_def_id();
    if matches!(tcx.def_kind(container), DefKind::Impl { .. }) {
      let st = tcx.type_of(container).instantiate_identity().skip_norm_wip();
      o.s("impl_self_ty", &ty_str(st));
      if let Some(a) = peel_adt(tcx, st) {
        o.s("impl_self_adt", &a);
      }
      if let Some(tr) = tcx.impl_opt_trait_ref(container) {
        let tr = tr.instantiate_identity().skip_norm_wip();
        o.s("impl_trait", &path_of(tcx, tr.def_id));
        o.s("impl_trait_full", &with_no_visible_paths!(with_no_trimmed_paths!(tr.to_string())));
      }
    } else if matches!(tcx.def_kind(container), DefKind::Trait) {
      o.s("in_trait", &path_of(tcx, container));
    }
  }
  if matches!(dk, DefKind::Fn | DefKind::AssocFn) {
    let vis = tcx.visibility(did);
    o.s(
      "vis",
      &match vis {
        ty::Visibility::Public => "pub".to_string(),
        ty::Visibility::Restricted(m) => {
          if m == tcx.parent_module_from_def_id(def).to_def_id() {
            "priv".to_string()
          } else {
            format!("restricted:{}", path_of(tcx, m))
          }
        }
      },
    );
    o.b("is_async", tcx.asyncness(did).is_async());
    o.b("is_unsafe", tcx.fn_sig(did).skip_binder().safety().is_unsafe());
  }
  let (file, line) = span_loc(tcx, body.span);
  o.s("file", &file).n("line", line as i128);
  if let Some(x) = expn_tag(body.span) {
    o.s("x", &x);
  }
  o.n("argc", body.arg_count as i128);
  // locals
  let mut names: Vec<Option<String>> = vec![None; body.local_decls.len()];
  for vdi in &body.var_debug_info {
    if let VarDebugInfoContents::Place(p) = &vdi.value {
      if p.projection.is_empty() {
        names[p.local.as_usize()] = Some(vdi.name.to_string());
      }
    }
  }
  let locals = json::arr(body.local_decls.iter_enumerated().map(|(l, d)| {
    let mut s = String::new();
    let mut o = Obj::new(&mut s);
    o.s("ty", &ty_str(d.ty));
    if let Some(a) = peel_adt(tcx, d.ty) {
      o.s("adt", &a);
    }
    if let Some(n) = &names[l.as_usize()] {
      o.s("name", n);
    }
    if d.is_user_variable() {
      o.b("user", true);
    }
    o.end();
    s
  }));
  o.raw("locals", &locals);
  // upvar debug names (for closures: names of captured variables by field index)
  let blocks = json::arr(body.basic_blocks.iter().map(|bb| {
    let mut s = String::new();
    let mut o = Obj::new(&mut s);
    o.raw("s", &json::arr(bb.statements.iter().filter_map(|st| cx.statement(st))));
    o.raw("t", &cx.terminator(bb));
    if bb.is_cleanup {
      o.b("cleanup", true);
    }
    o.end();
    s
  }));
  o.raw("blocks", &blocks);
  o.end();
  s
}
