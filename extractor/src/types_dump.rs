use crate::json::{self, q, Obj};
use crate::mir_dump::{path_of, peel_adt, span_loc, ty_str};
use rustc_hir::def::DefKind;
use rustc_infer::infer::TyCtxtInferExt;
use rustc_middle::ty::print::{with_no_trimmed_paths, with_no_visible_paths};
use rustc_middle::ty::{self, Ty, TyCtxt, TypingEnv, TypingMode};
use rustc_trait_selection::infer::InferCtxtExt;

/// Does `adt<P..>` implement auto trait `tr` when every type parameter is instantiated
/// with `with` and lifetimes are erased? Returns None when the ADT has const params
/// or the instantiation cannot be built.
fn auto_verdict<'tcx>(tcx: TyCtxt<'tcx>, adt_did: rustc_hir::def_id::DefId, with: Ty<'tcx>, tr: rustc_hir::def_id::DefId) -> Option<bool> {
  let generics = tcx.generics_of(adt_did);
  let mut ok = true;
  let args = ty::GenericArgs::for_item(tcx, adt_did, |param, _| match param.kind {
    ty::GenericParamDefKind::Lifetime => tcx.lifetimes.re_erased.into(),
    ty::GenericParamDefKind::Type { .. } => with.into(),
    ty::GenericParamDefKind::Const { .. } => {
      ok = false;
      tcx.mk_param_from_def(param)
    }
  });
  let _ = generics;
  if !ok {
    return None;
  }
  let ty = Ty::new_adt(tcx, tcx.adt_def(adt_did), args);
  let infcx = tcx.infer_ctxt().build(TypingMode::PostAnalysis);
  let res = infcx.type_implements_trait(tr, [ty], ty::ParamEnv::empty());
  Some(res.must_apply_modulo_regions())
}

pub fn dump_types<'tcx>(tcx: TyCtxt<'tcx>) -> String {
  let mut adts: Vec<String> = vec![];
  let mut impls: Vec<String> = vec![];
  let mut fns: Vec<String> = vec![];
  let send = tcx.get_diagnostic_item(rustc_span::sym::Send);
  let sync = tcx.get_diagnostic_item(rustc_span::sym::Sync);
  let u64t = tcx.types.u64;
  // Cell<u64>: Send + !Sync probe type
  let cell_ty = tcx.get_diagnostic_item(rustc_span::sym::Cell).map(|c| {
    let args = tcx.mk_args(&[u64t.into()]);
    Ty::new_adt(tcx, tcx.adt_def(c), args)
  });
  // *mut u8 probe: !Send + !Sync
  let items = tcx.hir_crate_items(());
  for ldid in items.definitions() {
    let did = ldid.to_def_id();
    match tcx.def_kind(did) {
      DefKind::Struct | DefKind::Enum | DefKind::Union => {
        let def = tcx.adt_def(did);
        let mut s = String::new();
        let mut o = Obj::new(&mut s);
        o.s("path", &path_of(tcx, did));
        o.s("kind", if def.is_enum() { "enum" } else if def.is_union() { "union" } else { "struct" });
        let (file, line) = span_loc(tcx, tcx.def_span(did));
        o.s("file", &file).n("line", line as i128);
        o.s(
          "vis",
          &match tcx.visibility(did) {
            ty::Visibility::Public => "pub".to_string(),
            ty::Visibility::Restricted(m) => format!("restricted:{}", path_of(tcx, m)),
          },
        );
        let generics = tcx.generics_of(did);
        o.raw(
          "generics",
          &json::arr(generics.own_params.iter().map(|p| {
            q(&format!(
              "{}:{}",
              match p.kind {
                ty::GenericParamDefKind::Lifetime => "lt",
                ty::GenericParamDefKind::Type { .. } => "ty",
                ty::GenericParamDefKind::Const { .. } => "const",
              },
              p.name
            ))
          })),
        );
        let env = TypingEnv::post_analysis(tcx, did);
        let variants = json::arr(def.variants().iter().map(|v| {
          let mut s = String::new();
          let mut o = Obj::new(&mut s);
          o.s("name", &v.name.to_string());
          o.raw(
            "fields",
            &json::arr(v.fields.iter().map(|f| {
              let fty = tcx.type_of(f.did).instantiate_identity().skip_norm_wip();
              let mut s = String::new();
              let mut o = Obj::new(&mut s);
              o.s("name", &f.name.to_string()).s("ty", &ty_str(fty));
              if let Some(a) = peel_adt(tcx, fty) {
                o.s("adt", &a);
              }
              o.b("needs_drop", fty.needs_drop(tcx, env));
              o.b("pub", tcx.visibility(f.did).is_public());
              o.end();
              s
            })),
          );
          o.end();
          s
        }));
        o.raw("variants", &variants);
        // auto-trait verdicts
        for (name, tr) in [("send", send), ("sync", sync)] {
          if let Some(tr) = tr {
            if let Some(v) = auto_verdict(tcx, did, u64t, tr) {
              o.b(&format!("{name}_u64"), v);
            }
            if let Some(c) = cell_ty {
              if let Some(v) = auto_verdict(tcx, did, c, tr) {
                o.b(&format!("{name}_cell"), v);
              }
            }
          }
        }
        o.end();
        adts.push(s);
      }
      DefKind::Impl { of_trait } => {
        let mut s = String::new();
        let mut o = Obj::new(&mut s);
        let st = tcx.type_of(did).instantiate_identity().skip_norm_wip();
        o.s("self_ty", &ty_str(st));
        if let Some(a) = peel_adt(tcx, st) {
          o.s("self_adt", &a);
        }
        // direct ADT (no peeling), to tell `impl Trait for X` from `impl Trait for &X`
        if let ty::Adt(d, _) = st.kind() {
          o.s("self_adt_direct", &path_of(tcx, d.did()));
        }
        let (file, line) = span_loc(tcx, tcx.def_span(did));
        o.s("file", &file).n("line", line as i128);
        if let Some(x) = crate::mir_dump::expn_tag(tcx.def_span(did)) {
          o.s("x", &x);
        }
        if of_trait {
          let tr = tcx.impl_trait_ref(did).instantiate_identity().skip_norm_wip();
          o.s("trait", &path_of(tcx, tr.def_id));
          o.s("trait_full", &with_no_visible_paths!(with_no_trimmed_paths!(tr.to_string())));
          let header = tcx.impl_trait_header(did);
          o.b("unsafe", header.safety.is_unsafe());
          o.b("negative", matches!(header.polarity, ty::ImplPolarity::Negative));
        }
        // where clauses (for conditional unsafe impl Send/Sync)
        let preds = tcx.predicates_of(did);
        o.raw(
          "preds",
          &json::arr(preds.predicates.iter().map(|(p, _)| q(&with_no_visible_paths!(with_no_trimmed_paths!(p.to_string()))))),
        );
        o.raw(
          "items",
          &json::arr(tcx.associated_items(did).in_definition_order().map(|it| {
            let mut s = String::new();
            let mut o = Obj::new(&mut s);
            o.s("name", &it.name().to_string());
            o.s("path", &path_of(tcx, it.def_id));
            o.s("kind", &format!("{:?}", it.kind).split('{').next().unwrap_or("").trim().to_string());
            o.end();
            s
          })),
        );
        o.end();
        impls.push(s);
      }
      DefKind::Fn | DefKind::AssocFn => {
        // signatures (also for trait method declarations without bodies)
        let mut s = String::new();
        let mut o = Obj::new(&mut s);
        o.s("path", &path_of(tcx, did));
        let sig = tcx.fn_sig(did).instantiate_identity().skip_norm_wip().skip_binder();
        o.raw("inputs", &json::arr(sig.inputs().iter().map(|t| q(&ty_str(*t)))));
        o.s("output", &ty_str(sig.output()));
        o.s(
          "vis",
          &match tcx.visibility(did) {
            ty::Visibility::Public => "pub".to_string(),
            ty::Visibility::Restricted(m) => format!("restricted:{}", path_of(tcx, m)),
          },
        );
        o.b("is_async", tcx.asyncness(did).is_async());
        let (file, line) = span_loc(tcx, tcx.def_span(did));
        o.s("file", &file).n("line", line as i128);
        o.end();
        fns.push(s);
      }
      _ => {}
    }
  }
  format!("\"adts\":{},\"impls\":{},\"fns\":{}", json::arr(adts), json::arr(impls), json::arr(fns))
}
