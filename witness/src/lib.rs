//! Type-level witnesses for the fibre checks (DESIGN.md §2.3 / §9.10). Every clause that is a statement about what the type
//! checker accepts has a pair of doctests: a `compile_fail,E0xxx` test that names the type as an external user would, and a
//! compiling twin that differs only by the offending line — so a witness whose path is merely wrong cannot pass as "fails to
//! compile". Run with `cargo +nightly test --doc --offline` (the error codes are only checked on nightly).
//!
//! Nothing here is executed for its behaviour: the doctest bodies construct a channel and stop; the verdict is the compiler's.

/// C01-4 / C09: the single-producer end of the spsc ring cannot be cloned.
/// ```compile_fail,E0599
/// let (tx, _rx) = fibre::spsc::bounded_sync::<u8>(4);
/// let _second = tx.clone();
/// ```
/// ```
/// let (tx, _rx) = fibre::spsc::bounded_sync::<u8>(4);
/// let _second = &tx;
/// ```
pub struct SpscSyncSenderNotClone;

/// C01-4: the single-consumer end of the spsc ring cannot be cloned.
/// ```compile_fail,E0599
/// let (_tx, rx) = fibre::spsc::bounded_sync::<u8>(4);
/// let _second = rx.clone();
/// ```
/// ```
/// let (_tx, rx) = fibre::spsc::bounded_sync::<u8>(4);
/// let _second = &rx;
/// ```
pub struct SpscSyncReceiverNotClone;

/// C01-4: the spsc sender is not Sync (its `&self` send forms cannot be reached from two threads).
/// ```compile_fail,E0277
/// fn needs_sync<T: Sync>(_: &T) {}
/// let (tx, _rx) = fibre::spsc::bounded_sync::<u8>(4);
/// needs_sync(&tx);
/// ```
/// ```
/// fn needs_send<T: Send>(_: &T) {}
/// let (tx, _rx) = fibre::spsc::bounded_sync::<u8>(4);
/// needs_send(&tx);
/// ```
pub struct SpscSyncSenderNotSync;

/// C01-4: the spsc receiver is not Sync.
/// ```compile_fail,E0277
/// fn needs_sync<T: Sync>(_: &T) {}
/// let (_tx, rx) = fibre::spsc::bounded_sync::<u8>(4);
/// needs_sync(&rx);
/// ```
/// ```
/// fn needs_send<T: Send>(_: &T) {}
/// let (_tx, rx) = fibre::spsc::bounded_sync::<u8>(4);
/// needs_send(&rx);
/// ```
pub struct SpscSyncReceiverNotSync;

/// C01-4: the async spsc handles are not Clone either.
/// ```compile_fail,E0599
/// let (tx, _rx) = fibre::spsc::bounded_async::<u8>(4);
/// let _second = tx.clone();
/// ```
/// ```
/// let (tx, _rx) = fibre::spsc::bounded_async::<u8>(4);
/// let _second = &tx;
/// ```
pub struct SpscAsyncSenderNotClone;

/// C01-4: ... nor the async receiver.
/// ```compile_fail,E0599
/// let (_tx, rx) = fibre::spsc::bounded_async::<u8>(4);
/// let _second = rx.clone();
/// ```
/// ```
/// let (_tx, rx) = fibre::spsc::bounded_async::<u8>(4);
/// let _second = &rx;
/// ```
pub struct SpscAsyncReceiverNotClone;

/// C01-4: the single consumer of the unbounded mpsc channel cannot be cloned.
/// ```compile_fail,E0599
/// let (_tx, rx) = fibre::mpsc::unbounded::<u8>();
/// let _second = rx.clone();
/// ```
/// ```
/// let (_tx, rx) = fibre::mpsc::unbounded::<u8>();
/// let _second = &rx;
/// ```
pub struct MpscUnboundedReceiverNotClone;

/// C01-4: the bounded mpsc receiver cannot be cloned.
/// ```compile_fail,E0599
/// let (_tx, rx) = fibre::mpsc::bounded::<u8>(4);
/// let _second = rx.clone();
/// ```
/// ```
/// let (tx, _rx) = fibre::mpsc::bounded::<u8>(4);
/// let _second = tx.clone();
/// ```
pub struct MpscBoundedReceiverNotClone;

/// C01-4: the oneshot receiver cannot be cloned (its sender can).
/// ```compile_fail,E0599
/// let (_tx, rx) = fibre::oneshot::oneshot::<u8>();
/// let _second = rx.clone();
/// ```
/// ```
/// let (tx, _rx) = fibre::oneshot::oneshot::<u8>();
/// let _second = tx.clone();
/// ```
pub struct OneshotReceiverNotClone;

/// C07-1: the single producer of the broadcast ring cannot be cloned ...
/// ```compile_fail,E0599
/// let (tx, _rx) = fibre::spmc::bounded::<u8>(4);
/// let _second = tx.clone();
/// ```
/// ```
/// let (_tx, rx) = fibre::spmc::bounded::<u8>(4);
/// let _second = rx.clone();
/// ```
pub struct SpmcSyncSenderNotClone;

/// C07-1: ... and is not Sync: `send(&self)` cannot be reached from two threads (repaired by eef6104; the async sender is a listed finding).
/// ```compile_fail,E0277
/// fn needs_sync<T: Sync>(_: &T) {}
/// let (tx, _rx) = fibre::spmc::bounded::<u8>(4);
/// needs_sync(&tx);
/// ```
/// ```
/// fn needs_send<T: Send>(_: &T) {}
/// let (tx, _rx) = fibre::spmc::bounded::<u8>(4);
/// needs_send(&tx);
/// ```
pub struct SpmcSyncSenderNotSync;

/// C10-6: a read guard gives no mutable access.
/// ```compile_fail,E0594
/// let lock = fibre::sync::HybridRwLock::new(0u32);
/// let mut g = lock.read();
/// *g = 1;
/// ```
/// ```
/// let lock = fibre::sync::HybridRwLock::new(0u32);
/// let mut g = lock.write();
/// *g = 1;
/// ```
pub struct ReadGuardHasNoDerefMut;

/// C10-6 / C11: two read guards may coexist, a write guard borrows like a read guard (the exclusion is run-time), but neither guard can outlive the lock.
/// ```compile_fail,E0597
/// let g = {
///   let lock = fibre::sync::HybridRwLock::new(0u32);
///   lock.read()
/// };
/// let _ = *g;
/// ```
/// ```
/// let lock = fibre::sync::HybridRwLock::new(0u32);
/// let g = lock.read();
/// let _ = *g;
/// ```
pub struct GuardCannotOutliveLock;
