// C08 demonstration: "A receiver observes Disconnected only after every sender handle is gone and it has drained its
// mailbox, and it does observe it then, whatever its subscriptions." The last sender's disconnect walks the per-topic
// subscriber lists only: a receiver that holds no subscription at that moment is never told.
use fibre::error::TryRecvError;

#[test]
fn c08_receiver_without_subscription_never_observes_disconnected() {
  let (tx, rx) = fibre::spmc::topic::channel::<&'static str, u32>(8);
  rx.subscribe("t");
  rx.unsubscribe(&"t");
  let rx_never = rx.clone(); // a clone carries the (empty) subscription set
  drop(tx);
  let a = rx.try_recv();
  let b = rx_never.try_recv();
  assert!(matches!(a, Err(TryRecvError::Disconnected)), "every sender handle is gone and the mailbox is empty, yet try_recv() says {a:?}");
  assert!(matches!(b, Err(TryRecvError::Disconnected)), "clone: {b:?}");
}
