// C07 finding: the spmc sender handles are auto-Sync and send through &self, so safe code can run two
// producers on the single-producer ring. This program must not compile once the senders are !Sync;
// on the pinned tree it compiles and loses / duplicates values.
use fibre::spmc;
use std::collections::HashSet;

#[test]
fn c07_two_threads_produce_through_a_shared_sender_reference() {
  const N: u64 = 200_000;
  let (tx, rx) = spmc::bounded::<u64>(1 << 20);
  std::thread::scope(|s| {
    let t = &tx;
    s.spawn(move || for i in 0..N { while t.try_send(i).is_err() {} });
    s.spawn(move || for i in N..2 * N { while t.try_send(i).is_err() {} });
  });
  drop(tx);
  let mut seen = HashSet::new();
  let mut dup = 0u64;
  while let Ok(v) = rx.try_recv() {
    if !seen.insert(v) {
      dup += 1;
    }
  }
  assert!(seen.len() as u64 == 2 * N && dup == 0, "sent {} distinct values, received {} distinct, {} duplicates", 2 * N, seen.len(), dup);
}
