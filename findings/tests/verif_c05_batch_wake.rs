// C05 demonstration: unbounded mpmc, a batch publish wakes a single parked receiver; the woken receiver takes
// one item and nobody wakes the others although items are queued.
use std::sync::atomic::{AtomicUsize, Ordering};
use std::sync::Arc;
use std::thread;
use std::time::Duration;

#[test]
fn c05_batch_publish_leaves_a_receiver_parked_with_items_queued() {
  for round in 0..20 {
    let (mut tx, rx) = fibre::mpmc::unbounded::<u32>();
    let got = Arc::new(AtomicUsize::new(0));
    let mut hs = Vec::new();
    for _ in 0..2 {
      let mut rx = rx.clone();
      let got = got.clone();
      hs.push(thread::spawn(move || {
        if rx.recv().is_ok() {
          got.fetch_add(1, Ordering::SeqCst);
        }
        // keep the handle alive so that the channel does not disconnect
        thread::sleep(Duration::from_millis(1500));
      }));
    }
    thread::sleep(Duration::from_millis(300)); // both receivers are parked
    tx.send_batch(vec![1, 2]).unwrap();
    thread::sleep(Duration::from_millis(700));
    let n = got.load(Ordering::SeqCst);
    assert_eq!(n, 2, "round {round}: two items were published to two parked receivers, {n} receiver(s) returned; queue length {}", rx.len());
    drop(tx);
    for h in hs {
      h.join().unwrap();
    }
  }
}

#[test]
fn c05_async_batch_publish_wakes_only_one_pending_receiver() {
  use std::future::Future;
  use std::pin::pin;
  use std::task::{Context, Poll, Wake, Waker};
  struct Count(AtomicUsize);
  impl Wake for Count {
    fn wake(self: Arc<Self>) {
      self.0.fetch_add(1, Ordering::SeqCst);
    }
  }
  let (mut tx, mut rx) = fibre::mpmc::unbounded_async::<u32>();
  let mut rx2 = rx.clone();
  let w1 = Arc::new(Count(AtomicUsize::new(0)));
  let w2 = Arc::new(Count(AtomicUsize::new(0)));
  let wk1 = Waker::from(w1.clone());
  let wk2 = Waker::from(w2.clone());
  let mut f1 = pin!(rx.recv());
  let mut f2 = pin!(rx2.recv());
  assert!(f1.as_mut().poll(&mut Context::from_waker(&wk1)).is_pending());
  assert!(f2.as_mut().poll(&mut Context::from_waker(&wk2)).is_pending());
  {
    let mut sb = pin!(tx.send_batch(vec![1, 2]));
    let nw = Waker::noop();
    assert!(matches!(sb.as_mut().poll(&mut Context::from_waker(&nw)), Poll::Ready(Ok(_))));
  }
  // the first woken future takes its item
  assert_eq!(w1.0.load(Ordering::SeqCst), 1);
  assert!(matches!(f1.as_mut().poll(&mut Context::from_waker(&wk1)), Poll::Ready(Ok(1))));
  assert!(w2.0.load(Ordering::SeqCst) > 0, "an item is queued for the second pending receiver but it was never woken");
}
