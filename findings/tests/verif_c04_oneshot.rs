//! C04 on oneshot: "receivers still obtain every value already sent and only then observe Disconnected, and a receiver that has
//! observed Disconnected never obtains a value afterwards". try_recv / poll_recv read the state (EMPTY), then read sender_count (0), and
//! report Disconnected even when the EMPTY->CLOSED compare_exchange fails because a send completed in between.
use fibre::error::TryRecvError;
use fibre::oneshot;
use std::sync::atomic::{AtomicBool, AtomicUsize, Ordering};
use std::sync::Arc;

#[test]
fn oneshot_try_recv_never_reports_disconnected_while_a_sent_value_is_waiting() {
  let rounds = 5_000usize;
  let bad = AtomicUsize::new(0);
  let mut first = None;
  for i in 0..rounds {
    let (tx, rx) = oneshot::oneshot::<usize>();
    let go = Arc::new(AtomicBool::new(false));
    let go2 = go.clone();
    let done = Arc::new(AtomicBool::new(false));
    let done2 = done.clone();
    let t = std::thread::spawn(move || {
      while !go2.load(Ordering::Acquire) {
        std::hint::spin_loop();
      }
      let _ = tx.send(i);
      // `send` consumes the handle: sender_count -> 0 right after the value was stored
      done2.store(true, Ordering::Release);
    });
    go.store(true, Ordering::Release);
    loop {
      match rx.try_recv() {
        Ok(v) => {
          assert_eq!(v, i);
          break;
        }
        Err(TryRecvError::Empty) => std::hint::spin_loop(),
        Err(TryRecvError::Disconnected) => {
          // the only sender always sends before it is dropped: Disconnected must never be seen before the value
          while !done.load(Ordering::Acquire) {
            std::hint::spin_loop();
          }
          if let Ok(v) = rx.try_recv() {
            bad.fetch_add(1, Ordering::Relaxed);
            if first.is_none() {
              first = Some((i, v));
            }
          } else {
            bad.fetch_add(1, Ordering::Relaxed);
            if first.is_none() {
              first = Some((i, usize::MAX));
            }
          }
          break;
        }
      }
    }
    t.join().unwrap();
    if bad.load(Ordering::Relaxed) > 0 {
      break;
    }
  }
  assert_eq!(bad.load(Ordering::Relaxed), 0, "try_recv reported Disconnected although the only sender had sent; first occurrence (round, value obtained afterwards) = {:?}", first);
}
