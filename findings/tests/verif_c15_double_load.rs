// C15 demonstration: "the loader runs exactly once per miss". A caller that misses the store just before a load
// completes reaches the pending-load table after the marker was removed, finds nothing, and becomes a second leader:
// the loader runs twice for one miss epoch (no invalidation or expiry in between).
use fibre_cache::builder::CacheBuilder;
use std::sync::atomic::{AtomicUsize, Ordering};
use std::sync::{Arc, Barrier};
use std::time::{Duration, Instant};

#[test]
fn c15_concurrent_misses_on_one_key_load_it_more_than_once() {
  const KEYS: usize = 60_000;
  const THREADS: usize = 8;
  let loads: Arc<Vec<AtomicUsize>> = Arc::new((0..KEYS).map(|_| AtomicUsize::new(0)).collect());
  let l2 = loads.clone();
  let cache = Arc::new(
    CacheBuilder::<usize, usize>::new()
      .unbounded()
      .shards(8)
      .janitor_tick_interval(Duration::from_secs(3600))
      .loader(move |k: usize| {
        l2[k].fetch_add(1, Ordering::SeqCst);
        (k, 1)
      })
      .build()
      .unwrap(),
  );
  let barrier = Arc::new(Barrier::new(THREADS));
  let start = Instant::now();
  let hs: Vec<_> = (0..THREADS)
    .map(|_| {
      let cache = cache.clone();
      let barrier = barrier.clone();
      std::thread::spawn(move || {
        barrier.wait();
        for k in 0..KEYS {
          assert_eq!(*cache.fetch_with(&k), k);
          if start.elapsed() > Duration::from_secs(40) {
            break;
          }
        }
      })
    })
    .collect();
  for h in hs {
    h.join().unwrap();
  }
  let twice: Vec<usize> = (0..KEYS).filter(|k| loads[*k].load(Ordering::SeqCst) > 1).collect();
  assert!(twice.is_empty(), "{} of {KEYS} keys were loaded more than once with no invalidation or expiry in between, e.g. key {} loaded {} times",
    twice.len(), twice[0], loads[twice[0]].load(Ordering::SeqCst));
}
