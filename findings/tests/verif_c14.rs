// Demonstrations for policy-contract findings (C14). Policy level (public trait API) and cache level.
use fibre_cache::builder::CacheBuilder;
use fibre_cache::policy::arc::ArcPolicy;
use fibre_cache::policy::clock::ClockPolicy;
use fibre_cache::policy::fifo::Fifo;
use fibre_cache::policy::slru::SlruPolicy;
use fibre_cache::policy::{AdmissionDecision, CachePolicy};
use std::collections::HashSet;
use std::time::Duration;

fn admit<P: CachePolicy<u32, u32>>(p: &P, k: u32, c: u64, resident: &mut HashSet<u32>) {
  match p.on_admit(&k, c) {
    AdmissionDecision::Admit => {
      resident.insert(k);
    }
    AdmissionDecision::Reject => {}
    AdmissionDecision::AdmitAndEvict(v) => {
      resident.insert(k);
      for x in v {
        resident.remove(&x);
      }
    }
  }
}

// C14: "stops tracking an admitted key only by nominating it as a victim or on being told it was removed, so
// every resident key stays evictable". ARC's on_admit demotes a resident to a ghost list when T1+T2 is at
// capacity and does not nominate it: the key stays resident in the cache and can never be evicted.
#[test]
fn c14_arc_admission_stops_tracking_a_resident_without_nominating_it() {
  let p = ArcPolicy::<u32>::new(4);
  let mut resident = HashSet::new();
  for k in 0..8u32 {
    admit(&p, k, 1, &mut resident);
  }
  // Ask the policy to evict everything it can.
  let (victims, _) = CachePolicy::<u32, u32>::evict(&p, u64::MAX);
  for v in &victims {
    resident.remove(v);
  }
  assert!(resident.is_empty(), "keys {resident:?} were admitted, never nominated, never removed, and evict(MAX) does not return them");
}

// The same, through the cache: a burst of inserts between two maintenance passes leaves residents that no
// number of maintenance passes can evict.
#[test]
fn c14_arc_cache_stays_over_capacity() {
  let cache = CacheBuilder::<u32, u32>::new()
    .capacity(4)
    .shards(1)
    .cache_policy_factory(|| Box::new(ArcPolicy::new(4)))
    .maintenance_chance(1 << 30)
    .janitor_tick_interval(Duration::from_secs(3600))
    .build()
    .unwrap();
  for round in 0..20u32 {
    for k in 0..8u32 {
      cache.insert(round * 8 + k, 0, 1);
    }
    cache.run_maintenance();
    cache.run_maintenance();
  }
  for _ in 0..10 {
    cache.run_maintenance();
  }
  let resident = cache.iter().count();
  assert!(resident <= 4, "{resident} entries of cost 1 resident after maintenance, capacity 4 (current_cost {})", cache.metrics().current_cost);
}

// C14: "re-admitting a key updates its cost rather than duplicating it" / "reports exactly their recorded costs" /
// "frees at least the requested cost whenever its evictable keys are worth that much".
fn readmit_updates_cost<P: CachePolicy<u32, u32>>(p: P, name: &str) {
  p.on_admit(&1, 10);
  p.on_admit(&1, 1); // overwritten with a cheaper value
  p.on_admit(&2, 5);
  p.on_admit(&3, 5);
  // evictable keys are worth 11; ask for 6: must free >= 6 of real cost
  let real = |k: u32| if k == 1 { 1u64 } else { 5 };
  let (victims, reported) = p.evict(6);
  let freed: u64 = victims.iter().map(|k| real(*k)).sum();
  assert_eq!(reported, freed, "{name}: evict reports {reported} for victims {victims:?} whose current cost is {freed}");
  assert!(freed >= 6, "{name}: asked to free 6, freed {freed} ({victims:?})");
}
#[test]
fn c14_fifo_readmission_keeps_the_stale_cost() {
  readmit_updates_cost(Fifo::<u32>::new(), "fifo");
}
#[test]
fn c14_clock_readmission_keeps_the_stale_cost() {
  readmit_updates_cost(ClockPolicy::<u32>::new(), "clock");
}
#[test]
fn c14_slru_readmission_keeps_the_stale_cost() {
  readmit_updates_cost(SlruPolicy::<u32>::new(100), "slru");
}

// Through the cache: overwrite with a cheaper value, then exceed capacity; the capacity pass trusts the stale record.
#[test]
fn c14_fifo_cache_over_capacity_after_maintenance() {
  let cache = CacheBuilder::<u32, u32>::new()
    .capacity(10)
    .shards(1)
    .cache_policy_factory(|| Box::new(Fifo::new()))
    .maintenance_chance(1 << 30)
    .janitor_tick_interval(Duration::from_secs(3600))
    .build()
    .unwrap();
  cache.insert(1, 0, 10);
  cache.run_maintenance();
  cache.insert(1, 0, 1);
  cache.insert(2, 0, 4);
  cache.insert(3, 0, 4);
  cache.run_maintenance(); // 9 resident
  cache.insert(4, 0, 4); // 13: 3 over
  cache.run_maintenance();
  let cost = cache.metrics().current_cost;
  assert!(cost <= 10, "current_cost {cost} after a maintenance pass, capacity 10");
}
