//! Observed on the unchanged tree, item (d): `oneshot::Receiver::is_closed()`
//! loads `state` first and `sender_count` afterwards. If the only sender sends
//! and is dropped between the two loads, `is_closed()` answers `true` although
//! the value is pending and `try_recv()` then returns it.
//! Race: many receivers spin on `is_closed()` (more threads than cores) while
//! the senders send + drop; repeated until seen or a time bound expires.

use fibre::oneshot;

use std::sync::atomic::{AtomicBool, AtomicUsize, Ordering};
use std::sync::Arc;
use std::thread;
use std::time::{Duration, Instant};

#[test]
fn oneshot_is_closed_never_true_while_a_value_is_pending() {
  let cores = thread::available_parallelism().map(|n| n.get()).unwrap_or(4);
  let pairs = (cores * 2).clamp(8, 48);
  let started_at = Instant::now();
  let mut round = 0u64;

  while started_at.elapsed() < Duration::from_secs(30) {
    let running = Arc::new(AtomicUsize::new(0));
    let done = Arc::new(AtomicBool::new(false));
    let mut senders = Vec::new();
    let mut handles = Vec::new();
    for i in 0..pairs {
      let (tx, rx) = oneshot::oneshot::<u64>();
      senders.push((tx, i as u64));
      let running = Arc::clone(&running);
      let done = Arc::clone(&done);
      handles.push(thread::spawn(move || {
        running.fetch_add(1, Ordering::SeqCst);
        let mut said_closed = false;
        loop {
          if rx.is_closed() {
            said_closed = true;
            break;
          }
          if done.load(Ordering::Acquire) {
            break;
          }
          std::hint::spin_loop();
        }
        (said_closed, rx.try_recv())
      }));
    }
    while running.load(Ordering::SeqCst) < pairs {
      thread::yield_now();
    }
    thread::sleep(Duration::from_micros(300 + (round % 7) * 250));
    for (tx, v) in senders {
      tx.send(v).unwrap(); // consumes the only sender: send, then drop
    }
    done.store(true, Ordering::Release);

    for (idx, h) in handles.into_iter().enumerate() {
      let (said_closed, got) = h.join().unwrap();
      assert!(
        !(said_closed && got.is_ok()),
        "round {round}, receiver {idx}: is_closed() returned true, yet try_recv() then returned {got:?}"
      );
    }
    round += 1;
  }
  eprintln!("observed_d: {round} rounds x {pairs} receivers without a hit");
}
