//! Observed on the unchanged tree, item (a): mpmc_v2 bounded (async handles).
//! A receiver that is woken by the last sender's close reports `Disconnected`
//! although a value that was sent before the close is still queued, and the
//! very same handle then obtains that value from `try_recv`.
//! Fully deterministic: single thread, futures polled by hand.

use fibre::error::{RecvError, TryRecvError};
use fibre::mpmc;

use std::future::Future;
use std::pin::pin;
use std::sync::atomic::{AtomicUsize, Ordering};
use std::sync::Arc;
use std::task::{Context, Poll, Wake, Waker};

struct CountWake(AtomicUsize);
impl Wake for CountWake {
  fn wake(self: Arc<Self>) {
    self.0.fetch_add(1, Ordering::SeqCst);
  }
}

#[test]
fn mpmc_bounded_async_disconnected_is_reported_before_the_queue_is_drained() {
  let (tx, rx1) = mpmc::bounded_async::<u32>(4);
  let rx2 = rx1.clone();

  let w1 = Arc::new(CountWake(AtomicUsize::new(0)));
  let w2 = Arc::new(CountWake(AtomicUsize::new(0)));
  let waker1 = Waker::from(w1.clone());
  let waker2 = Waker::from(w2.clone());

  // 1. Two receive futures (one per receiver handle) park on the empty channel.
  let mut f1 = pin!(rx1.recv());
  let mut f2 = pin!(rx2.recv());
  assert!(f1.as_mut().poll(&mut Context::from_waker(&waker1)).is_pending());
  assert!(f2.as_mut().poll(&mut Context::from_waker(&waker2)).is_pending());

  // 2. One value is sent: it is queued and the first parked future is signalled.
  tx.try_send(7).unwrap();
  assert_eq!(w1.0.load(Ordering::SeqCst), 1, "first waiter is woken for the value");

  // 3. The last sender goes away: the second parked future is signalled as closed.
  drop(tx);
  assert_eq!(w2.0.load(Ordering::SeqCst), 1, "second waiter is woken by the disconnect");

  // 4. The second future happens to be polled first. The value 7 is still in the queue.
  let r2 = f2.as_mut().poll(&mut Context::from_waker(&waker2));
  let after = rx2.try_recv();
  println!("rx2.recv() poll after last sender dropped: {r2:?}");
  println!("rx2.try_recv() right afterwards:           {after:?}");

  // Property C04: every value already sent is obtained before Disconnected is
  // observed, and a receiver that observed Disconnected never obtains a value.
  if let Poll::Ready(Err(RecvError::Disconnected)) = r2 {
    assert!(
      !matches!(after, Ok(_)),
      "receiver observed Disconnected while a sent value was still queued, and then obtained {after:?} from try_recv"
    );
    assert_eq!(after, Err(TryRecvError::Disconnected));
  }
}
