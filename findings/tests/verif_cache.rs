// Demonstrations for cache findings (C12, C13, C17). Each test fails on the pinned tree.
use fibre_cache::{builder::CacheBuilder, policy::lru::LruPolicy};
use std::time::Duration;

// C13-1: the capacity pass subtracts the policy's own cost record instead of the cost of the entries it
// actually removed. A key that was inserted and removed before the policy ever learned about it is
// admitted afterwards as a phantom; when the policy nominates it, nothing is removed from the map but
// its cost is subtracted anyway.
#[test]
fn c13_capacity_pass_subtracts_cost_of_an_entry_it_did_not_remove() {
  let cache = CacheBuilder::<u32, u32>::new()
    .capacity(10)
    .shards(1)
    .cache_policy_factory(|| Box::new(LruPolicy::new()))
    .maintenance_chance(1 << 30)
    .janitor_tick_interval(Duration::from_secs(3600))
    .build()
    .unwrap();
  cache.insert(1, 1, 5);
  assert!(cache.remove(&1).is_some());
  cache.insert(2, 2, 5);
  cache.insert(3, 3, 5);
  cache.insert(4, 4, 5);
  cache.run_maintenance();
  let resident: u64 = cache.iter().map(|_| 5u64).sum();
  let reported = cache.metrics().current_cost;
  assert_eq!(reported, resident, "current_cost says {reported} but {resident} is resident (capacity 10)");
}

// C12-1: entry() only asks whether the key is present, so an expired-but-not-yet-collected entry is
// served through OccupiedEntry::get / or_insert.
#[test]
fn c12_entry_api_serves_an_expired_value() {
  let cache = CacheBuilder::<u32, u32>::new()
    .unbounded()
    .shards(1)
    .time_to_live(Duration::from_millis(30))
    .janitor_tick_interval(Duration::from_secs(3600))
    .maintenance_chance(1 << 30)
    .build()
    .unwrap();
  cache.insert(7, 70, 1);
  std::thread::sleep(Duration::from_millis(80));
  assert!(cache.fetch(&7).is_none(), "fetch correctly refuses the expired entry");
  let served = match cache.entry(7) {
    fibre_cache::Entry::Occupied(o) => Some(*o.get()),
    fibre_cache::Entry::Vacant(_) => None,
  };
  assert_eq!(served, None, "entry() handed out the value of an entry that expired 50 ms ago");
}

// C17-2 / C13-3: entries restored from a snapshot are never announced to the eviction policy, so the
// rebuilt cache cannot evict them: a snapshot taken while the source was (temporarily, legally) over
// capacity restores into a cache that stays over capacity however often maintenance runs.
#[test]
fn c17_restored_cache_does_not_honour_capacity() {
  let a = CacheBuilder::<u32, u32>::new()
    .capacity(10)
    .shards(1)
    .cache_policy_factory(|| Box::new(LruPolicy::new()))
    .maintenance_chance(1 << 30)
    .maintenance_on_introspection(false)
    .janitor_tick_interval(Duration::from_secs(3600))
    .build()
    .unwrap();
  for i in 0..15 {
    a.insert(i, i, 1); // inserts never block; eviction is the janitor's job
  }
  let snap = a.to_snapshot();
  let b = CacheBuilder::<u32, u32>::new()
    .cache_policy_factory(|| Box::new(LruPolicy::new()))
    .janitor_tick_interval(Duration::from_secs(3600))
    .build_from_snapshot(snap)
    .unwrap();
  b.run_maintenance();
  b.run_maintenance();
  let resident = b.iter().count() as u64;
  assert!(resident <= 10, "restored cache holds {resident} entries of cost 1 after two maintenance passes, capacity is 10 (current_cost {})", b.metrics().current_cost);
}

// C12-2: TTL cleanup removes whatever entry hashes to a fired timer without looking at the entry's own
// deadline, and the timer wheel advances one slot per maintenance pass, not by elapsed time. A few
// back-to-back maintenance passes therefore fire the timer of an entry long before its deadline: the
// unexpired entry is removed, reported missing, and the listener is told `Expired`.
#[test]
fn c12_ttl_cleanup_removes_an_unexpired_entry() {
  let cache = CacheBuilder::<u32, u32>::new()
    .unbounded()
    .shards(1)
    .time_to_live(Duration::from_secs(3600))
    .timer_tick_duration(Duration::from_secs(1))
    .timer_wheel_size(64)
    .janitor_tick_interval(Duration::from_secs(3600))
    .maintenance_chance(1 << 30)
    .build()
    .unwrap();
  cache.insert_with_ttl(1, 11, 1, Duration::from_secs(5));
  let t0 = std::time::Instant::now();
  for _ in 0..8 {
    cache.run_maintenance();
  }
  let elapsed = t0.elapsed();
  assert!(elapsed < Duration::from_secs(1));
  assert_eq!(cache.fetch(&1).map(|v| *v), Some(11),
    "an entry with 5 s to live is gone {elapsed:?} after its insertion (evicted_by_ttl = {})", cache.metrics().evicted_by_ttl);
}

// C16-6 (same defect as c12_ttl_cleanup_removes_an_unexpired_entry, seen from the listener): the listener is told
// `Expired` for a value that has 5 s to live.
#[test]
fn c16_listener_is_told_expired_for_an_unexpired_entry() {
  use fibre_cache::{EvictionListener, EvictionReason};
  use std::sync::{Arc, Mutex};
  struct L(Arc<Mutex<Vec<(u32, EvictionReason)>>>);
  impl EvictionListener<u32, u32> for L {
    fn on_evict(&self, key: u32, _value: Arc<u32>, reason: EvictionReason) {
      self.0.lock().unwrap().push((key, reason));
    }
  }
  let seen = Arc::new(Mutex::new(Vec::new()));
  let cache = CacheBuilder::<u32, u32>::new()
    .unbounded()
    .shards(1)
    .time_to_live(Duration::from_secs(3600))
    .timer_tick_duration(Duration::from_secs(1))
    .timer_wheel_size(64)
    .janitor_tick_interval(Duration::from_secs(3600))
    .maintenance_chance(1 << 30)
    .eviction_listener(L(seen.clone()))
    .build()
    .unwrap();
  let t0 = std::time::Instant::now();
  cache.insert_with_ttl(1, 11, 1, Duration::from_secs(5));
  for _ in 0..8 {
    cache.run_maintenance();
  }
  std::thread::sleep(Duration::from_millis(300)); // let the notifier thread deliver
  let elapsed = t0.elapsed();
  assert!(elapsed < Duration::from_secs(2));
  let got = seen.lock().unwrap().clone();
  assert!(!got.iter().any(|(k, r)| *k == 1 && matches!(r, EvictionReason::Expired)),
    "listener was told key 1 Expired {elapsed:?} after an insert with a 5 s TTL: {got:?}");
}
