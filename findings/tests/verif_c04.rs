// Demonstrations for the C04 findings (closed handles still accepted, conversions re-opening a closed
// handle, uncounted TopicSender clones, AsyncTopicReceiver double decrement). Each test FAILS on the
// pinned tree and passes once the corresponding defect is repaired.
use fibre::{mpmc, mpsc, spsc};
use std::future::Future;
use std::pin::Pin;
use std::sync::Arc;
use std::task::{Context, Poll, Wake, Waker};
use std::time::Duration;

struct Noop;
impl Wake for Noop {
  fn wake(self: Arc<Self>) {}
}
fn poll_once<F: Future>(f: &mut Pin<Box<F>>) -> Poll<F::Output> {
  let w = Waker::from(Arc::new(Noop));
  let mut cx = Context::from_waker(&w);
  f.as_mut().poll(&mut cx)
}

// ---------- C04-1: a closed handle rejects further operations ----------
#[test]
fn c04_1_spsc_send_batch_on_closed_sender() {
  let (tx, rx) = spsc::bounded_sync::<u32>(8);
  tx.close().unwrap();
  let r = tx.send_batch(vec![1, 2, 3]);
  assert!(r.is_err(), "send_batch on a closed sender succeeded: {:?}; receiver got {:?}", r.as_ref().ok(), rx.try_recv());
}

#[test]
fn c04_1_mpsc_bounded_recv_timeout_on_closed_receiver() {
  let (tx, rx) = mpsc::bounded::<u32>(4);
  tx.send(7).unwrap();
  rx.close().unwrap();
  let r = rx.recv_timeout(Duration::from_millis(20));
  assert!(matches!(r, Err(fibre::RecvErrorTimeout::Disconnected)), "recv_timeout on a closed receiver returned {:?}", r);
}

#[test]
fn c04_1_mpmc_bounded_recv_timeout_on_closed_receiver() {
  let (tx, rx) = mpmc::bounded::<u32>(4);
  let _rx2 = rx.clone();
  tx.send(7).unwrap();
  rx.close().unwrap();
  let r = rx.recv_timeout(Duration::from_millis(20));
  assert!(matches!(r, Err(fibre::RecvErrorTimeout::Disconnected)), "recv_timeout on a closed receiver returned {:?}", r);
}

#[test]
fn c04_1_mpmc_unbounded_recv_batch_mut_on_closed_receiver() {
  let (mut tx, mut rx) = mpmc::unbounded::<u32>();
  let _rx2 = rx.clone();
  tx.send(1).unwrap();
  rx.close().unwrap();
  let mut out = Vec::new();
  let r = rx.recv_batch_mut(&mut out, 4);
  assert!(r.is_err(), "recv_batch_mut on a closed receiver returned {:?} / {:?}", r, out);
}

#[test]
fn c04_1_mpmc_async_send_future_on_closed_sender() {
  let (tx, rx) = mpmc::bounded_async::<u32>(4);
  let _tx2 = tx.clone();
  tx.close().unwrap();
  let mut f = Box::pin(tx.send(5));
  let r = poll_once(&mut f);
  assert!(matches!(r, Poll::Ready(Err(_))), "async send on a closed sender: {:?}; receiver sees {:?}", r, rx.try_recv());
}

#[test]
fn c04_1_mpmc_async_recv_future_on_closed_receiver() {
  let (tx, rx) = mpmc::bounded_async::<u32>(4);
  let _rx2 = rx.clone();
  tx.try_send(9).unwrap();
  rx.close().unwrap();
  let mut f = Box::pin(rx.recv());
  let r = poll_once(&mut f);
  assert!(matches!(r, Poll::Ready(Err(_))), "async recv on a closed receiver: {:?}", r);
}

#[test]
fn c04_1_rendezvous_async_send_on_closed_sender() {
  // spsc, mpsc and mpmc flavours share the shape: send() builds a future straight from `shared`.
  let (tx, _rx) = spsc::rendezvous::rendezvous_async::<u32>();
  tx.close().unwrap();
  let mut f = Box::pin(tx.send(1));
  assert!(matches!(poll_once(&mut f), Poll::Ready(Err(_))), "spsc rendezvous async send on a closed sender did not fail");
  drop(f);
  let (tx, _rx) = mpsc::rendezvous::rendezvous_async::<u32>();
  let _tx2 = tx.clone();
  tx.close().unwrap();
  let mut f = Box::pin(tx.send(1));
  assert!(matches!(poll_once(&mut f), Poll::Ready(Err(_))), "mpsc rendezvous async send on a closed sender did not fail");
  drop(f);
  let (tx, _rx) = mpmc::rendezvous::rendezvous_async::<u32>();
  let _tx2 = tx.clone();
  tx.close().unwrap();
  let mut f = Box::pin(tx.send(1));
  assert!(matches!(poll_once(&mut f), Poll::Ready(Err(_))), "mpmc rendezvous async send on a closed sender did not fail");
}

#[test]
fn c04_1_rendezvous_async_recv_on_closed_receiver() {
  let (_tx, rx) = spsc::rendezvous::rendezvous_async::<u32>();
  rx.close().unwrap();
  let mut f = Box::pin(rx.recv());
  assert!(matches!(poll_once(&mut f), Poll::Ready(Err(_))), "spsc rendezvous async recv on a closed receiver did not fail");
  drop(f);
  let (_tx, rx) = mpsc::rendezvous::rendezvous_async::<u32>();
  rx.close().unwrap();
  let mut f = Box::pin(rx.recv());
  assert!(matches!(poll_once(&mut f), Poll::Ready(Err(_))), "mpsc rendezvous async recv on a closed receiver did not fail");
  drop(f);
  let (_tx, rx) = mpmc::rendezvous::rendezvous_async::<u32>();
  let _rx2 = rx.clone();
  rx.close().unwrap();
  let mut f = Box::pin(rx.recv());
  assert!(matches!(poll_once(&mut f), Poll::Ready(Err(_))), "mpmc rendezvous async recv on a closed receiver did not fail");
}

// ---------- C04-3: conversions keep the closed state ----------
#[test]
fn c04_3_conversion_reopens_closed_handle_and_double_decrements() {
  // mpmc bounded: s1 is closed, converted and dropped; s2 is still alive, so the receiver must see Empty.
  let (s1, rx) = mpmc::bounded::<u32>(4);
  let s2 = s1.clone();
  s1.close().unwrap();
  let a = s1.to_async();
  assert!(a.try_send(1).is_err(), "a closed sender accepts sends again after to_async()");
  drop(a);
  let r = rx.try_recv();
  assert!(matches!(r, Err(fibre::TryRecvError::Empty)), "second sender is alive but receiver sees {:?}", r);
  drop(s2);
}

#[test]
fn c04_3_spsc_conversion_reopens_closed_sender() {
  let (tx, rx) = spsc::bounded_sync::<u32>(4);
  tx.close().unwrap();
  let mut atx = tx.to_async();
  assert!(atx.try_send(1).is_err(), "closed spsc sender accepts sends after to_async(); receiver got {:?}", rx.try_recv());
}
