// C04 demonstration: "a receiver that has observed Disconnected never obtains a value afterwards" /
// "after the last receiver is dropped or closed every send form fails with Closed".
// Cloning a handle that was itself closed (and was the last of its side) revives the side.
use fibre::error::{TryRecvError, TrySendError};

#[test]
fn c04_mpsc_bounded_clone_of_closed_last_sender_revives_the_channel() {
  let (tx, rx) = fibre::mpsc::bounded::<u32>(4);
  tx.close().unwrap();
  assert!(matches!(rx.try_recv(), Err(TryRecvError::Disconnected)));
  let tx2 = tx.clone();
  let sent = tx2.try_send(7).is_ok();
  let got = rx.try_recv();
  assert!(!sent && !matches!(got, Ok(_)), "after the receiver observed Disconnected: clone().try_send(7) ok = {sent}, then try_recv = {got:?}");
}

#[test]
fn c04_mpsc_unbounded_clone_of_closed_last_sender_revives_the_channel() {
  let (mut tx, mut rx) = fibre::mpsc::unbounded::<u32>();
  tx.close().unwrap();
  assert!(matches!(rx.try_recv(), Err(TryRecvError::Disconnected)));
  let mut tx2 = tx.clone();
  let sent = tx2.try_send(7).is_ok();
  let got = rx.try_recv();
  assert!(!sent && !matches!(got, Ok(_)), "after the receiver observed Disconnected: clone().try_send(7) ok = {sent}, then try_recv = {got:?}");
}

#[test]
fn c04_mpmc_bounded_clone_of_closed_last_sender_revives_the_channel() {
  let (tx, rx) = fibre::mpmc::bounded::<u32>(4);
  tx.close().unwrap();
  assert!(matches!(rx.try_recv(), Err(TryRecvError::Disconnected)));
  let tx2 = tx.clone();
  let sent = tx2.try_send(7).is_ok();
  let got = rx.try_recv();
  assert!(!sent && !matches!(got, Ok(_)), "after the receiver observed Disconnected: clone().try_send(7) ok = {sent}, then try_recv = {got:?}");
}

#[test]
fn c04_mpmc_bounded_clone_of_closed_last_receiver_reopens_for_senders() {
  let (tx, rx) = fibre::mpmc::bounded::<u32>(4);
  rx.close().unwrap();
  assert!(matches!(tx.try_send(1), Err(TrySendError::Closed(1))));
  let rx2 = rx.clone();
  let r = tx.try_send(2);
  assert!(matches!(r, Err(TrySendError::Closed(2))), "after a send failed with Closed, cloning the closed receiver makes try_send succeed again: {r:?} (clone then receives {:?})", rx2.try_recv());
}

#[test]
fn c04_mpmc_unbounded_clone_of_closed_last_sender_revives_the_channel() {
  let (tx, mut rx) = fibre::mpmc::unbounded::<u32>();
  let mut tx = tx;
  tx.close().unwrap();
  assert!(matches!(rx.try_recv(), Err(TryRecvError::Disconnected)));
  let mut tx2 = tx.clone();
  let sent = tx2.try_send(7).is_ok();
  let got = rx.try_recv();
  assert!(!sent && !matches!(got, Ok(_)), "after the receiver observed Disconnected: clone().try_send(7) ok = {sent}, then try_recv = {got:?}");
}
