// C06 finding: in the wake-one protocols of the mpsc-bounded async senders and the mpmc-bounded async
// waiters, a future that was woken and is then dropped swallows the wake: its Drop only withdraws its own
// entry. Another pending future stays asleep although the operation it waits for has become possible.
use fibre::{mpmc, mpsc};
use std::future::Future;
use std::pin::Pin;
use std::sync::atomic::{AtomicUsize, Ordering};
use std::sync::Arc;
use std::task::{Context, Poll, Wake, Waker};

struct Counting(AtomicUsize);
impl Wake for Counting {
  fn wake(self: Arc<Self>) {
    self.0.fetch_add(1, Ordering::SeqCst);
  }
}
fn waker() -> (Arc<Counting>, Waker) {
  let c = Arc::new(Counting(AtomicUsize::new(0)));
  (c.clone(), Waker::from(c))
}
fn poll<F: Future>(f: &mut Pin<Box<F>>, w: &Waker) -> Poll<F::Output> {
  f.as_mut().poll(&mut Context::from_waker(w))
}

#[test]
fn c06_mpsc_bounded_async_send_woken_then_dropped_swallows_the_wake() {
  let (tx, rx) = mpsc::bounded_async::<u32>(1);
  let tx2 = tx.clone();
  tx.try_send(0).unwrap();
  let (c1, w1) = waker();
  let (c2, w2) = waker();
  let mut f1 = Box::pin(tx.send(1));
  let mut f2 = Box::pin(tx2.send(2));
  assert!(poll(&mut f1, &w1).is_pending());
  assert!(poll(&mut f2, &w2).is_pending());
  // free the only slot: exactly one async sender is woken (metered drip)
  assert_eq!(rx.try_recv().ok(), Some(0));
  let _ = rx.try_recv(); // Empty: flushes consumer progress
  let woken = (c1.0.load(Ordering::SeqCst), c2.0.load(Ordering::SeqCst));
  assert_eq!(woken.0 + woken.1, 1, "expected exactly one of the two pending senders to be woken, got {woken:?}");
  // cancel the one that was woken
  let other = if woken.0 == 1 { drop(f1); (&c2, &mut f2, &w2) } else { drop(f2); (&c1, &mut f1, &w1) };
  assert!(other.0 .0.load(Ordering::SeqCst) >= 1,
    "a slot is free and one sender is still pending, but its waker was never invoked: the cancelled future swallowed the wake (an executor would never poll it again)");
  assert!(poll(other.1, other.2).is_ready());
}

#[test]
fn c06_mpmc_bounded_async_send_woken_then_dropped_swallows_the_wake() {
  let (tx, rx) = mpmc::bounded_async::<u32>(1);
  let tx2 = tx.clone();
  tx.try_send(0).unwrap();
  let (c1, w1) = waker();
  let (c2, w2) = waker();
  let mut f1 = Box::pin(tx.send(1));
  let mut f2 = Box::pin(tx2.send(2));
  assert!(poll(&mut f1, &w1).is_pending());
  assert!(poll(&mut f2, &w2).is_pending());
  assert_eq!(rx.try_recv().ok(), Some(0));
  let woken = (c1.0.load(Ordering::SeqCst), c2.0.load(Ordering::SeqCst));
  assert_eq!(woken.0 + woken.1, 1, "expected exactly one of the two pending senders to be woken, got {woken:?}");
  let other = if woken.0 == 1 { drop(f1); (&c2, &mut f2, &w2) } else { drop(f2); (&c1, &mut f1, &w1) };
  assert!(other.0 .0.load(Ordering::SeqCst) >= 1,
    "space is available and one sender is still pending, but its waker was never invoked: the cancelled future swallowed the wake");
  assert!(poll(other.1, other.2).is_ready());
}

#[test]
fn c06_mpmc_unbounded_async_recv_notified_then_dropped_swallows_the_wake() {
  let (mut tx, mut rx1) = mpmc::unbounded_async::<u32>();
  let mut rx2 = rx1.clone();
  let (c1, w1) = waker();
  let (c2, w2) = waker();
  let mut f1 = Box::pin(rx1.recv());
  let mut f2 = Box::pin(rx2.recv());
  assert!(poll(&mut f1, &w1).is_pending());
  assert!(poll(&mut f2, &w2).is_pending());
  // one item: exactly one parked receiver is notified (wake-one)
  tx.try_send(7).unwrap();
  let woken = (c1.0.load(Ordering::SeqCst), c2.0.load(Ordering::SeqCst));
  assert_eq!(woken.0 + woken.1, 1, "expected exactly one receiver to be notified, got {woken:?}");
  let other = if woken.0 == 1 { drop(f1); (&c2, &mut f2, &w2) } else { drop(f2); (&c1, &mut f1, &w1) };
  assert!(other.0 .0.load(Ordering::SeqCst) >= 1,
    "an item is queued and one receiver is still pending, but its waker was never invoked: the cancelled (already notified) future swallowed the wake");
  assert!(poll(other.1, other.2).is_ready());
}
