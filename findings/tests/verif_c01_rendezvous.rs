// C01 finding: a timed rendezvous receive cancels with a CAS outside the channel lock while the sender
// commits the handoff under the lock with an unconditional store. Schedule: sender pops the receiver's
// record under the lock; receiver's deadline fires and its CAS WAITING->CANCELLED succeeds; sender writes
// the value into the receiver's slot and stores DONE; sender returns Ok; receiver returns Timeout and drops
// the value. Observable as: #values whose send returned Ok  >  #values received.
use fibre::mpmc;
use std::sync::atomic::{AtomicBool, AtomicU64, Ordering};
use std::sync::Arc;
use std::time::{Duration, Instant};

#[test]
fn c01_timed_rendezvous_recv_loses_a_delivered_value() {
  let deadline = Instant::now() + Duration::from_secs(std::env::var("VERIF_STRESS_SECS").ok().and_then(|s| s.parse().ok()).unwrap_or(30));
  let mut round = 0u64;
  while Instant::now() < deadline {
    round += 1;
    let (tx, rx) = mpmc::rendezvous::rendezvous::<u64>();
    let stop = Arc::new(AtomicBool::new(false));
    let sent_ok = Arc::new(AtomicU64::new(0));
    let s2 = stop.clone();
    let so = sent_ok.clone();
    let prod = std::thread::spawn(move || {
      let mut i = 0u64;
      while !s2.load(Ordering::Relaxed) {
        if tx.try_send(i).is_ok() {
          so.fetch_add(1, Ordering::Relaxed);
        }
        i += 1;
      }
    });
    let mut got = 0u64;
    let t_end = Instant::now() + Duration::from_millis(300);
    let mut k = 0u32;
    while Instant::now() < t_end {
      k = k.wrapping_add(1);
      // deadlines of a few microseconds put the cancel right on top of the sender's handoff
      match rx.recv_timeout(Duration::from_nanos(500 + (k % 7) as u64 * 900)) {
        Ok(_) => got += 1,
        Err(_) => {}
      }
    }
    stop.store(true, Ordering::Relaxed);
    // drain: a sender may be mid-handoff
    let drain_end = Instant::now() + Duration::from_millis(50);
    while Instant::now() < drain_end {
      if rx.recv_timeout(Duration::from_millis(5)).is_ok() {
        got += 1;
      }
    }
    prod.join().unwrap();
    let ok = sent_ok.load(Ordering::Relaxed);
    assert_eq!(ok, got, "round {round}: {ok} sends reported Ok but only {got} values were received: a committed handoff was discarded by a timed-out receive");
  }
}
