// C04 / C08 findings on the topic channel.
use fibre::spmc::topic;
use std::time::Duration;

#[test]
fn c04_2_dropping_one_sender_clone_disconnects_everybody() {
  let (tx, rx) = topic::channel::<&'static str, u32>(8);
  rx.subscribe("a");
  let tx2 = tx.clone();
  drop(tx2);
  // `tx` is still alive: the receiver must not observe Disconnected.
  tx.send("a", 1).expect("original sender must still work");
  assert_eq!(rx.try_recv().ok().map(|(_, v)| v), Some(1));
  let r = rx.recv_timeout(Duration::from_millis(20));
  assert!(matches!(r, Err(fibre::RecvErrorTimeout::Timeout)), "a sender handle is alive but receiver sees {:?}", r);
}

#[test]
fn c04_1_closed_topic_receiver_still_receives() {
  let (tx, rx) = topic::channel::<&'static str, u32>(8);
  let rx2 = rx.clone();
  rx.subscribe("a");
  tx.send("a", 1).unwrap();
  // message is in rx's mailbox; close the handle: it must reject further operations
  let _ = &rx2;
  rx.close().unwrap();
  let r = rx.try_recv();
  assert!(r.is_err(), "closed topic receiver returned {:?}", r);
}

#[test]
fn c04_4_async_topic_receiver_close_then_drop_decrements_twice() {
  let (tx, rx) = topic::channel_async::<&'static str, u32>(8);
  let rx2 = rx.clone();
  rx.close().unwrap();
  drop(rx);
  // rx2 is alive: the sender must not consider the channel closed
  assert!(!tx.is_closed(), "one receiver is alive but sender.is_closed() is true (receiver count decremented twice)");
  drop(rx2);
}

#[test]
fn c04_3_topic_receiver_conversion_reopens() {
  let (tx, rx) = topic::channel::<&'static str, u32>(8);
  let rx2 = rx.clone();
  rx.close().unwrap();
  let arx = rx.to_async();
  drop(arx);
  assert!(!tx.is_closed(), "receiver count decremented twice through close + to_async + drop");
  drop(rx2);
}
