#!/usr/bin/env python3
"""Sensitivity self-test: apply single-site source edits (that still compile) to a scratch copy of /repo
and require that the named check reports a violation whose key contains the expected fragment.
Usage: selftest/run.py [--only <id-substr>] [--prop Cnn] [--keep]   (DESIGN.md §7)"""
import argparse
import json
import os
import re
import shutil
import subprocess
import sys
import tempfile
import time

HERE = os.path.dirname(os.path.abspath(__file__))
VERIF = os.path.dirname(HERE)
REPO = os.environ.get("VERIF_REPO", "/repo")


def load_mutants():
    with open(os.path.join(HERE, "mutants.json")) as fh:
        return json.load(fh)


def load_seeded():
    """Seeded changes written by independent sub-agents (seeded/<id>/patch.diff + meta.json): the ones with a non-empty caught_by must be reported by
    the named rule; the declined ones (caught_by empty) must at least leave the check runnable."""
    out = []
    sd = os.path.join(VERIF, "seeded")
    for name in sorted(os.listdir(sd)) if os.path.isdir(sd) else []:
        mp = os.path.join(sd, name, "meta.json")
        if not os.path.exists(mp):
            continue
        meta = json.load(open(mp))
        if not meta.get("caught_by"):
            continue
        out.append({"id": "seeded:" + name, "prop": meta.get("caught_under", meta["property"]), "patch": os.path.join(sd, name, "patch.diff"), "expect": meta["caught_by"][0]})
    return out


def apply_patch(mut, root):
    r = subprocess.run(["patch", "-p1", "-s", "-i", mut["patch"]], cwd=root, stdout=subprocess.PIPE, stderr=subprocess.STDOUT, text=True)
    return None if r.returncode == 0 else "patch does not apply: " + r.stdout[-200:]


def unapply_patch(mut, root):
    subprocess.run(["patch", "-p1", "-s", "-R", "-i", mut["patch"]], cwd=root, stdout=subprocess.PIPE, stderr=subprocess.STDOUT, text=True)


def copy_repo(dst):
    subprocess.check_call(["rsync", "-a", "--exclude", "target", "--exclude", ".git", REPO + "/", dst + "/"])


def apply(mut, root):
    """apply all edits of a mutant; returns ({path: original source}, error)"""
    edits = mut.get("edits") or [mut]
    orig = {}
    for ed in edits:
        p = os.path.join(root, ed["file"])
        if p not in orig:
            orig[p] = open(p).read()
        _, err = apply_one(ed, root)
        if err:
            for q, src in orig.items():
                open(q, "w").write(src)
            return None, err
    return orig, None


def apply_one(mut, root):
    p = os.path.join(root, mut["file"])
    src = open(p).read()
    find = mut["find"]
    n = src.count(find)
    nth = mut.get("nth", 1)
    if n < nth:
        return None, f"pattern occurs {n}x, need #{nth}"
    if "nth" not in mut and n != 1:
        return None, f"pattern occurs {n}x (expected exactly once; add nth)"
    idx = -1
    for _ in range(nth):
        idx = src.index(find, idx + 1)
    new = src[:idx] + mut["replace"] + src[idx + len(find):]
    open(p, "w").write(new)
    return src, None


def main():
    ap = argparse.ArgumentParser()
    ap.add_argument("--only", default=None)
    ap.add_argument("--prop", default=None)
    ap.add_argument("--seed", type=int, default=int(os.environ.get("VERIF_SEED", "0") or 0))
    ap.add_argument("--max", type=int, default=0)
    ap.add_argument("--slice", default=None, help="a:b:step over the ordered list (mutants then seeds), to split one selftest over several processes")
    a = ap.parse_args()
    muts = load_mutants() + load_seeded()
    if a.prop:
        muts = [m for m in muts if m["prop"] == a.prop]
    if a.only:
        muts = [m for m in muts if a.only in m["id"]]
    if a.max and len(muts) > a.max:
        import random
        r = random.Random(a.seed)
        muts = r.sample(muts, a.max)
    if a.slice:
        lo, hi, st = (a.slice.split(":") + ["", ""])[:3]
        muts = muts[int(lo or 0):int(hi) if hi else None:int(st or 1)]
    scratch = tempfile.mkdtemp(prefix="fibre-selftest.")
    results = []
    try:
        copy_repo(scratch)
        for mu in muts:
            t0 = time.time()
            if "patch" in mu:
                orig, err = {}, apply_patch(mu, scratch)
            else:
                orig, err = apply(mu, scratch)
            if err:
                results.append((mu["id"], "SKIP", err))
                print(f"SKIP {mu['id']}: {err}", flush=True)
                continue
            try:
                r = subprocess.run([os.path.join(VERIF, "check"), mu["prop"], "--repo", scratch, "--no-evidence"],
                                   stdout=subprocess.PIPE, stderr=subprocess.STDOUT, text=True)
                out = r.stdout
                viol = [l for l in out.splitlines() if l.startswith("VIOLATION") or l.startswith("  ")]
                exp = mu["expect"]
                hit = [l for l in out.splitlines() if exp in l and not l.startswith("KNOWN")]
                if "extraction failed" in out:
                    st = ("BUILD-FAIL", out[-400:])
                elif hit and r.returncode == 1:
                    st = ("CAUGHT", hit[0][:200])
                else:
                    st = ("MISSED", f"exit={r.returncode}; violations: {[v[:120] for v in viol[:4]]}")
            finally:
                if "patch" in mu:
                    unapply_patch(mu, scratch)
                for q, src in orig.items():
                    open(q, "w").write(src)
            results.append((mu["id"], st[0], st[1]))
            print(f"{st[0]} {mu['id']} [{mu['prop']}] ({time.time()-t0:.0f}s) {st[1]}", flush=True)
    finally:
        shutil.rmtree(scratch, ignore_errors=True)
        if not a.slice:
            shutil.rmtree(os.path.join(VERIF, "out", "_scratch"), ignore_errors=True)
    n = len(results)
    caught = sum(1 for r in results if r[1] == "CAUGHT")
    print(f"selftest: {caught}/{n} caught; missed={[r[0] for r in results if r[1]=='MISSED']} skipped={[r[0] for r in results if r[1] in ('SKIP','BUILD-FAIL')]}")
    with open(os.path.join(VERIF, "out", "selftest_last.json" if not a.slice else "selftest_" + a.slice.replace(":", "_") + ".json"), "w") as fh:
        json.dump([{"id": i, "status": s, "detail": d} for i, s, d in results], fh, indent=1)
    return 0 if caught == n else 1


if __name__ == "__main__":
    sys.exit(main())
