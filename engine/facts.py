"""Fact base: hashing /repo, running the extractor, loading JSON facts.

Nothing here judges; see rules_*.py. DESIGN.md §2.1, §2.4.
"""
import fcntl
import hashlib
import json
import os
import shutil
import subprocess
import sys
import tempfile
import time

VERIF = os.path.dirname(os.path.dirname(os.path.abspath(__file__)))
REPO = os.environ.get("VERIF_REPO", "/repo")
CACHE = os.path.join(VERIF, ".cache")
DRIVER = os.path.join(VERIF, "extractor", "target", "release", "fibre-facts")

CRATES = ["fibre", "fibre_cache", "fibre_ioc", "fibre_logging"]

# extraction configurations: (tag, cargo args, crates expected)
CONFIGS_QUICK = [
    ("", ["-p", "fibre", "-p", "fibre_cache", "-p", "fibre_ioc", "-p", "fibre_logging"],
     ["fibre", "fibre_cache", "fibre_ioc", "fibre_logging"]),
    ("local", ["-p", "fibre_ioc", "--features", "fibre_ioc/local"], ["fibre_ioc"]),
]
CONFIGS_THOROUGH = [
    ("diagnostics", ["-p", "fibre", "--features", "fibre/diagnostics"], ["fibre"]),
    ("full", ["-p", "fibre_cache", "--features", "fibre_cache/full"], ["fibre_cache"]),
    # fibre_cache --no-default-features does not build upstream (handles/futures.rs uses tokio unconditionally): not a configuration
]


def tree_hash(repo=None):
    repo = repo or REPO
    h = hashlib.sha256()
    files = []
    for root, dirs, fs in os.walk(repo):
        dirs[:] = sorted(d for d in dirs if d not in ("target", ".git"))
        for f in sorted(fs):
            if f.endswith(".rs") or f in ("Cargo.toml", "Cargo.lock", "rust-toolchain.toml", "rust-toolchain"):
                files.append(os.path.join(root, f))
    for p in files:
        h.update(os.path.relpath(p, repo).encode())
        h.update(b"\0")
        with open(p, "rb") as fh:
            h.update(fh.read())
        h.update(b"\0")
    # the extractor's own source participates: a changed extractor invalidates the cache
    for f in sorted(os.listdir(os.path.join(VERIF, "extractor", "src"))):
        with open(os.path.join(VERIF, "extractor", "src", f), "rb") as fh:
            h.update(fh.read())
    return h.hexdigest()[:20], len(files)


def nightly_sysroot():
    return subprocess.check_output(["rustc", "+nightly", "--print", "sysroot"], text=True).strip()


def build_driver():
    src = os.path.join(VERIF, "extractor")
    newest = max(os.path.getmtime(os.path.join(src, "src", f)) for f in os.listdir(os.path.join(src, "src")))
    if os.path.exists(DRIVER) and os.path.getmtime(DRIVER) >= newest:
        return
    env = dict(os.environ, CARGO_NET_OFFLINE="true")
    r = subprocess.run(["cargo", "build", "--release", "--offline"], cwd=src, env=env,
                       stdout=subprocess.PIPE, stderr=subprocess.STDOUT, text=True)
    if r.returncode != 0:
        sys.stderr.write(r.stdout)
        raise SystemExit("extractor build failed")


def facts_name(crate, tag):
    return f"{crate}+{tag}.json" if tag else f"{crate}.json"


def run_extractor(configs, outdir, repo=None):
    """Run the driver under cargo +nightly check inside `repo`, fresh target dir, removed afterwards."""
    repo = repo or REPO
    build_driver()
    os.makedirs(outdir, exist_ok=True)
    tdir = tempfile.mkdtemp(prefix="fibre-facts-target.")
    log = []
    try:
        for tag, args, crates in configs:
            env = dict(os.environ)
            env.update({
                "LD_LIBRARY_PATH": os.path.join(nightly_sysroot(), "lib") + ":" + env.get("LD_LIBRARY_PATH", ""),
                "RUSTFLAGS": "-Zmir-opt-level=0 -Awarnings",
                "RUSTC_WORKSPACE_WRAPPER": DRIVER,
                "CARGO_TARGET_DIR": tdir,
                "CARGO_INCREMENTAL": "0",
                "CARGO_NET_OFFLINE": "true",
                "VERIF_FACTS_DIR": outdir,
                "VERIF_FACTS_TAG": tag,
                "VERIF_FACTS_CRATES": ",".join(crates),
            })
            env.pop("RUSTC_WRAPPER", None)
            t0 = time.time()
            r = subprocess.run(["cargo", "+nightly", "check", "--offline"] + args, cwd=repo, env=env,
                               stdout=subprocess.PIPE, stderr=subprocess.STDOUT, text=True)
            log.append(f"[{tag or 'default'}] cargo check {' '.join(args)}: exit {r.returncode} in {time.time()-t0:.1f}s")
            if r.returncode != 0:
                sys.stderr.write(r.stdout[-6000:])
                raise SystemExit(f"extraction failed for config '{tag or 'default'}' (does /repo build?)")
            for c in crates:
                p = os.path.join(outdir, facts_name(c, tag))
                if not os.path.exists(p):
                    sys.stderr.write(r.stdout[-3000:])
                    raise SystemExit(f"extraction produced no facts for {c} [{tag}] — fail closed")
    finally:
        shutil.rmtree(tdir, ignore_errors=True)
    return log


def ensure_facts(tier="quick", repo=None, quiet=False):
    """Return (dir, info). Facts are cached by content hash of the tree; extraction of one tree is serialised by a per-tree lock
    (different trees — scratch copies of the self-test — extract in parallel)."""
    repo = repo or REPO
    os.makedirs(os.path.join(CACHE, "facts"), exist_ok=True)
    h, nfiles = tree_hash(repo)
    d = os.path.join(CACHE, "facts", h)
    lockf = open(os.path.join(CACHE, f"facts.{h}.lock"), "w")
    fcntl.flock(lockf, fcntl.LOCK_EX)
    try:
        configs = list(CONFIGS_QUICK) + (list(CONFIGS_THOROUGH) if tier == "thorough" else [])
        missing = [c for c in configs if not all(os.path.exists(os.path.join(d, facts_name(k, c[0]))) for k in c[2])]
        info = {"tree_hash": h, "files_hashed": nfiles, "extracted": False, "log": []}
        if missing:
            if not quiet:
                print(f"[facts] extracting {len(missing)} config(s) for tree {h} ...", flush=True)
            t0 = time.time()
            tmp = d + ".partial"
            shutil.rmtree(tmp, ignore_errors=True)
            if os.path.isdir(d):
                shutil.copytree(d, tmp)
            info["log"] = run_extractor(missing, tmp, repo)
            shutil.rmtree(d, ignore_errors=True)
            os.rename(tmp, d)
            info["extracted"] = True
            info["extract_s"] = round(time.time() - t0, 1)
            # keep the cache small: drop all but the 16 most recent trees (under the global lock)
            glock = open(os.path.join(CACHE, "facts.lock"), "w")
            fcntl.flock(glock, fcntl.LOCK_EX)
            try:
                ents = sorted((os.path.getmtime(os.path.join(CACHE, "facts", e)), e)
                              for e in os.listdir(os.path.join(CACHE, "facts")) if not e.endswith(".partial"))
                for _, e in ents[:-16]:
                    shutil.rmtree(os.path.join(CACHE, "facts", e), ignore_errors=True)
                    try:
                        os.remove(os.path.join(CACHE, f"facts.{e}.lock"))
                    except OSError:
                        pass
            finally:
                fcntl.flock(glock, fcntl.LOCK_UN)
                glock.close()
        else:
            os.utime(d, None)     # recently used: keep it away from eviction
        return d, info
    finally:
        fcntl.flock(lockf, fcntl.LOCK_UN)
        lockf.close()


def load(d, crate, tag=""):
    with open(os.path.join(d, facts_name(crate, tag))) as fh:
        return json.load(fh)
