"""Result model, known findings, evidence and replay files. DESIGN.md §2.4/§2.5."""
import json
import os
import re
import time

VERIF = os.path.dirname(os.path.dirname(os.path.abspath(__file__)))


class Instance:
    __slots__ = ("rule", "key", "status", "detail", "witness", "nontrivial", "obligations", "where")

    def __init__(self, rule, key, status, detail="", witness=None, nontrivial=True, obligations=1, where=""):
        self.rule = rule          # e.g. "C04-1"
        self.key = key            # stable: def paths / callee names only, no line numbers
        self.status = status      # holds | violated | unclassified
        self.detail = detail
        self.witness = witness or []
        self.nontrivial = nontrivial
        self.obligations = obligations
        self.where = where        # file:line for humans only


class Result:
    def __init__(self, prop):
        self.prop = prop
        self.instances = []
        self.rules = {}           # rule id -> clause text
        self.notes = []
        self.extra = {}

    def rule(self, rid, clause):
        self.rules[rid] = clause

    def add(self, rule, key, status, detail="", witness=None, nontrivial=True, obligations=1, where=""):
        self.instances.append(Instance(rule, f"{self.prop}:{rule}:{key}", status, detail, witness, nontrivial, obligations, where))

    def holds(self, rule, key, detail="", **kw):
        self.add(rule, key, "holds", detail, **kw)

    def violated(self, rule, key, detail="", **kw):
        self.add(rule, key, "violated", detail, **kw)

    def unclassified(self, rule, key, detail="", **kw):
        self.add(rule, key, "unclassified", detail, **kw)

    def merge(self, other, retag=None):
        for i in other.instances:
            self.instances.append(i)
        self.rules.update(other.rules)
        self.notes.extend(other.notes)


def load_known():
    p = os.path.join(VERIF, "known_findings.json")
    if not os.path.exists(p):
        return {"findings": [], "fixed": []}
    with open(p) as fh:
        return json.load(fh)


def load_floors():
    p = os.path.join(VERIF, "rules", "floors.json")
    if not os.path.exists(p):
        return {}
    with open(p) as fh:
        return json.load(fh)


def safe_name(key):
    return re.sub(r"[^A-Za-z0-9_.+-]+", "_", key)[:180]


def finish(res, tier, seed, t0, facts_info, prog_info, outdir=None, quiet=False, write_evidence=True):
    """Print verdict lines, write replay files and evidence; return exit code."""
    prop = res.prop
    known = load_known()
    known_keys = {f["key"]: f for f in known.get("findings", []) if f.get("property") == prop}
    floors = load_floors().get(prop, {})
    outdir = outdir or os.path.join(VERIF, "out", prop)
    os.makedirs(outdir, exist_ok=True)
    for f in os.listdir(outdir):
        try:
            os.remove(os.path.join(outdir, f))
        except OSError:
            pass

    per_rule = {}
    for i in res.instances:
        d = per_rule.setdefault(i.rule, {"instances": 0, "holds": 0, "violated": 0, "unclassified": 0, "nontrivial": 0, "obligations": 0})
        d["instances"] += 1
        d[i.status] += 1
        d["nontrivial"] += 1 if i.nontrivial else 0
        d["obligations"] += i.obligations

    exit_code = 0
    n_viol = 0
    n_known = 0
    lines = []
    seen_known = set()
    for i in res.instances:
        if i.status == "holds":
            continue
        rp = os.path.join(outdir, safe_name(i.key) + ".txt")
        with open(rp, "w") as fh:
            fh.write(f"property: {prop}\nrule: {i.rule} — {res.rules.get(i.rule, '')}\nkey: {i.key}\nstatus: {i.status}\nwhere: {i.where}\n\n{i.detail}\n\n")
            for w in i.witness:
                fh.write(f"  {w}\n")
        if i.status == "violated" and i.key in known_keys:
            n_known += 1
            seen_known.add(i.key)
            lines.append(f"KNOWN-FINDING: property={prop} {i.key} — {known_keys[i.key].get('what', i.detail)}")
            continue
        n_viol += 1
        exit_code = 1
        tag = "" if i.status == "violated" else " (UNCLASSIFIED: the rule cannot decide this instance; fail closed)"
        lines.append(f"VIOLATION property={prop} replay={rp}{tag}")
        lines.append(f"  {i.rule} {i.where} {i.key}: {i.detail}")
    # floors: never pass vacuously
    for rid, floor in floors.items():
        have = per_rule.get(rid, {}).get("instances", 0)
        if have < floor:
            exit_code = 1
            n_viol += 1
            rp = os.path.join(outdir, safe_name(f"{prop}_{rid}_floor") + ".txt")
            with open(rp, "w") as fh:
                fh.write(f"rule {rid}: {have} instances found, floor is {floor} (measured on the pinned tree). "
                         f"The selector no longer matches what it was confirmed on — fail closed.\n")
            lines.append(f"VIOLATION property={prop} replay={rp} (instance floor: {rid} has {have} < {floor})")
    for rid in res.rules:
        if rid not in per_rule and rid not in floors:
            pass
    # known findings that no longer fire are reported informationally (not an error)
    for k in known_keys:
        if k not in seen_known:
            lines.append(f"note: listed finding no longer fires: {k}")

    for l in lines:
        print(l)

    evaluations = len(res.instances)
    nontrivial = len({i.key for i in res.instances if i.nontrivial})
    obligations = sum(i.obligations for i in res.instances)
    discharged = sum(i.obligations for i in res.instances if i.status == "holds")
    samples = []
    seen_rules = set()
    for i in res.instances:
        if i.rule not in seen_rules and i.status == "holds" and i.nontrivial:
            seen_rules.add(i.rule)
            samples.append({"rule": i.rule, "key": i.key, "where": i.where, "status": i.status, "detail": i.detail, "witness": i.witness[:8]})
    for i in res.instances:
        if i.status != "holds" and len(samples) < 40:
            samples.append({"rule": i.rule, "key": i.key, "where": i.where, "status": i.status,
                            "known_finding": i.key in known_keys, "detail": i.detail, "witness": i.witness[:8]})
    ev = {
        "property_id": prop,
        "tier": tier,
        "seed": seed,
        "level": "other",
        "coverage": {
            "explanation": res.extra.get("explanation", "") + " Decides structural clauses that are necessary conditions of the property, at every instance and on every control-flow path of the resolved, type-checked program; it does not decide the behavioural property itself.",
            "evaluations": evaluations,
            "distinct_nontrivial": nontrivial,
            "rule": "an evaluation is one rule instance (a function, call site, type or path selected structurally from rustc's MIR of /repo); it is non-trivial when its scope contained at least one obligation to discharge; keys are distinct def-path based identifiers",
            "obligations": obligations,
            "discharged": discharged,
            "samples": samples,
            "clauses": res.rules,
            "per_rule": per_rule,
            "floors": floors,
            "units": prog_info.get("crates"),
            "bodies_loaded": prog_info.get("bodies"),
            "call_sites_loaded": prog_info.get("calls"),
            "facts": facts_info,
            "known_findings_reported": n_known,
            "trusted_base": ["rustc nightly front end and MIR construction (mir_promoted)", "extractor /verif/extractor", "slot tables in /verif/rules"],
            "exhaustive": True,
            "notes": res.notes,
        },
        "assumptions": res.extra.get("assumptions", []) + [
            "normal control flow only: unwind edges are not analysed",
            "the frozen slot tables (rules/*.py) name the repository's idioms; an unrecognised idiom is reported as UNCLASSIFIED, never passed",
        ],
        "wall_s": round(time.time() - t0, 2),
        "violations": n_viol,
    }
    if write_evidence:
        os.makedirs(os.path.join(VERIF, "evidence"), exist_ok=True)
        with open(os.path.join(VERIF, "evidence", f"{prop}.json"), "w") as fh:
            json.dump(ev, fh, indent=1, sort_keys=False)
    if not quiet:
        tot = ", ".join(f"{r}:{d['holds']}/{d['instances']}" for r, d in sorted(per_rule.items()))
        print(f"[{prop}] tier={tier} instances={evaluations} nontrivial={nontrivial} obligations={discharged}/{obligations} "
              f"violations={n_viol} known={n_known} rules[{tot}] wall={ev['wall_s']}s")
    return exit_code
