"""CFG / dataflow primitives over the extracted MIR facts. DESIGN.md §2.2.

Positions are (block, index); index == len(stmts) is the terminator.
Unwind edges and cleanup blocks are not part of the analysed CFG: rules speak about
normal control flow (a panic aborts the operation; no property is claimed across panics).
"""
from collections import defaultdict, deque

TRANSPARENT_METHODS = {
    # callee `def` (canonical path) -> result aliases argument 0
    "core::ops::deref::Deref::deref", "core::ops::deref::DerefMut::deref_mut",
    "core::convert::AsRef::as_ref", "core::convert::AsMut::as_mut",
    "core::borrow::Borrow::borrow", "core::borrow::BorrowMut::borrow_mut",
    "core::pin::Pin::<&'a mut T>::get_mut", "core::pin::Pin::<&'a mut T>::get_unchecked_mut",
    "core::pin::Pin::<&'a T>::get_ref", "core::pin::Pin::<Ptr>::as_mut", "core::pin::Pin::<Ptr>::as_ref",
    "core::pin::Pin::<Ptr>::new", "core::pin::Pin::<Ptr>::new_unchecked", "core::pin::Pin::<Ptr>::into_inner",
    "core::pin::Pin::<Ptr>::get_mut", "core::pin::Pin::<Ptr>::get_ref",
    "core::cell::UnsafeCell::<T>::get", "core::cell::UnsafeCell::<T>::get_mut",
    "core::mem::maybe_uninit::MaybeUninit::<T>::as_mut_ptr", "core::mem::maybe_uninit::MaybeUninit::<T>::as_ptr",
    "core::option::Option::<T>::as_ref", "core::option::Option::<T>::as_mut", "core::option::Option::<T>::as_deref",
    "core::option::Option::<T>::unwrap", "core::option::Option::<T>::expect",
    "core::result::Result::<T, E>::unwrap", "core::result::Result::<T, E>::expect",
    "alloc::sync::Arc::<T, A>::as_ptr", "core::ptr::non_null::NonNull::<T>::as_ptr",
    "core::ptr::non_null::NonNull::<T>::as_ref", "core::ptr::non_null::NonNull::<T>::as_mut",
    "core::convert::Into::into", "core::convert::From::from",
    "core::future::into_future::IntoFuture::into_future",
}


def pl_local(place):
    return place[0]


def pl_proj(place):
    return place[1]


def op_place(op):
    if op is None:
        return None
    return op.get("c") or op.get("m")


def op_const(op):
    return op.get("k") if op else None


class Event:
    __slots__ = ("body", "bb", "idx", "kind", "data")

    def __init__(self, body, bb, idx, kind, data):
        self.body, self.bb, self.idx, self.kind, self.data = body, bb, idx, kind, data

    @property
    def pos(self):
        return (self.bb, self.idx)

    @property
    def line(self):
        return self.data.get("l", 0)

    @property
    def loc(self):
        return f"{self.body.file}:{self.line}"

    # call helpers
    @property
    def callee(self):
        return self.data["f"].get("def", "") if self.kind == "call" else ""

    @property
    def callee_resolved(self):
        if self.kind != "call":
            return ""
        f = self.data["f"]
        return f.get("resolved") or f.get("def", "")

    @property
    def callee_full(self):
        if self.kind != "call":
            return ""
        f = self.data["f"]
        return f.get("resolved_full") or f.get("full", "")

    @property
    def method(self):
        return self.data["f"].get("method", "") if self.kind == "call" else ""

    @property
    def args(self):
        return self.data.get("args", [])

    @property
    def expn(self):
        return self.data.get("x")

    @property
    def is_telemetry(self):
        """expanded from the crate's diagnostics macros (log_event!/increment_counter!): values are only logged"""
        x = self.data.get("x") or ""
        return x in ("m:log_event", "m:increment_counter", "m:crate::log_event", "m:crate::increment_counter") or x.endswith("log_event") or x.endswith("increment_counter")

    @property
    def is_atomic(self):
        return self.kind == "call" and self.callee.startswith("core::sync::atomic::Atomic::<")

    @property
    def is_fence(self):
        return self.kind == "call" and self.callee == "core::sync::atomic::fence"

    def __repr__(self):
        if self.kind == "call":
            return f"<call {self.callee_full} @{self.loc}>"
        return f"<{self.kind} @{self.loc}>"


class Body:
    def __init__(self, prog, raw):
        self.prog = prog
        self.raw = raw
        self.id = raw["id"]
        self.kind = raw["kind"]
        self.file = raw["file"]
        self.line = raw["line"]
        self.locals = raw["locals"]
        self.argc = raw["argc"]
        self.blocks = raw["blocks"]
        self.self_adt = raw.get("impl_self_adt")
        self.impl_trait = raw.get("impl_trait")
        self.vis = raw.get("vis")
        self.parent = raw.get("parent")
        self.root = raw.get("root")
        self.name = self.id.rsplit("::", 1)[-1]
        self._succ = None
        self._pred = None
        self._events = None
        self._defs = None
        self._dom = None
        self._reach_cache = {}

    # ---------- CFG ----------
    def is_cleanup(self, b):
        return bool(self.blocks[b].get("cleanup"))

    def term(self, b):
        return self.blocks[b]["t"]

    def succ_labeled(self, b):
        """[(target, label)] normal edges only."""
        t = self.blocks[b]["t"]
        k = t["k"]
        out = []
        if k in ("goto", "drop", "assert"):
            out.append((t["t"], None))
        elif k == "call":
            if t.get("t") is not None:
                out.append((t["t"], None))
        elif k == "switch":
            for v, lab, tgt in t["targets"]:
                out.append((tgt, lab if lab else str(v)))
            ol = t.get("otherwise_labels") or []
            on = t.get("on", {})
            if on.get("kind") == "bool":
                olab = "true" if all(l != "true" for _, l, _ in t["targets"]) else "false"
            elif ol:
                olab = "|".join(ol)
            else:
                olab = "otherwise"
            out.append((t["otherwise"], olab))
        elif k == "yield":
            out.append((t["t"], "resume"))
        elif k == "asm":
            for x in t.get("targets", []):
                out.append((x, None))
        return [(x, l) for x, l in out if not self.is_cleanup(x)]

    @property
    def succ(self):
        if self._succ is None:
            self._succ = [[x for x, _ in self.succ_labeled(b)] for b in range(len(self.blocks))]
        return self._succ

    @property
    def pred(self):
        if self._pred is None:
            p = [[] for _ in self.blocks]
            for b, ss in enumerate(self.succ):
                for s in ss:
                    p[s].append(b)
            self._pred = p
        return self._pred

    def reachable_blocks(self, start=0, removed_blocks=(), removed_edges=()):
        seen = set()
        if start in removed_blocks:
            return seen
        dq = deque([start])
        seen.add(start)
        while dq:
            b = dq.popleft()
            for s in self.succ[b]:
                if s in seen or s in removed_blocks or (b, s) in removed_edges:
                    continue
                seen.add(s)
                dq.append(s)
        return seen

    # ---------- events ----------
    @property
    def events(self):
        if self._events is None:
            evs = []
            for b, blk in enumerate(self.blocks):
                if blk.get("cleanup"):
                    continue
                for i, st in enumerate(blk["s"]):
                    if "dead" in st:
                        evs.append(Event(self, b, i, "dead", st))
                    else:
                        evs.append(Event(self, b, i, "assign", st))
                t = blk["t"]
                evs.append(Event(self, b, len(blk["s"]), t["k"], t))
            self._events = evs
        return self._events

    def calls(self, pred=None):
        return [e for e in self.events if e.kind == "call" and (pred is None or pred(e))]

    def event_at(self, pos):
        for e in self.events:
            if e.pos == pos:
                return e
        return None

    # ---------- position-level reachability ----------
    def pos_reaches(self, src, dst_set, removed=frozenset(), removed_edges=frozenset(), strict=True):
        """Is some position in dst_set reachable from src along normal edges without entering
        a position in `removed` (src itself is not tested) or taking a block edge in removed_edges?
        strict: src itself does not count as reached."""
        return bool(self.pos_reach_set(src, removed, removed_edges, strict) & set(dst_set))

    def pos_reach_set(self, src, removed=frozenset(), removed_edges=frozenset(), strict=True):
        """All positions reachable from src."""
        # group removed/dst by block for speed
        rem_by_b = defaultdict(list)
        for (b, i) in removed:
            rem_by_b[b].append(i)
        out = set()
        sb, si = src
        seen_blocks_entry = set()
        # walk within the source block
        work = deque()

        def walk_block(b, start_idx):
            n = len(self.blocks[b]["s"])
            stops = sorted(x for x in rem_by_b.get(b, ()) if x >= start_idx)
            end = stops[0] if stops else n + 1
            for i in range(start_idx, min(end, n + 1)):
                out.add((b, i))
            if end > n:
                # terminator executed: follow edges
                for s in self.succ[b]:
                    if (b, s) in removed_edges:
                        continue
                    if s not in seen_blocks_entry:
                        seen_blocks_entry.add(s)
                        work.append(s)

        walk_block(sb, si + 1 if strict else si)
        while work:
            b = work.popleft()
            walk_block(b, 0)
        return out

    def entry_reach_set(self, removed=frozenset(), removed_edges=frozenset()):
        return self.pos_reach_set((0, 0), removed, removed_edges, strict=False)

    def dominated_by_any(self, target, doms):
        """True iff every path entry->target passes through some position in doms."""
        if target in doms:
            return True
        return target not in self.entry_reach_set(removed=frozenset(doms))

    def edge_dominates(self, edge, target):
        """Edge (b -> s) dominates target: removing it makes target unreachable from entry."""
        return target not in self.entry_reach_set(removed_edges=frozenset([edge]))

    def edges_dominate(self, edges, target):
        return target not in self.entry_reach_set(removed_edges=frozenset(edges))

    def exits(self):
        """positions of return terminators (and coroutine return)."""
        return [e.pos for e in self.events if e.kind in ("return",)]

    # ---------- definitions / provenance ----------
    @property
    def defs(self):
        """local -> list of events that assign the whole local (assign or call dest)."""
        if self._defs is None:
            d = defaultdict(list)
            for e in self.events:
                if e.kind == "assign":
                    p = e.data["p"]
                    if p[1] and p[1][0] == "*":
                        continue  # write through a pointer held in the local: not a definition of the local
                    d[p[0]].append(e)  # includes partial (field) writes; see single_def
                elif e.kind == "call":
                    p = e.data["d"]
                    d[p[0]].append(e)
                elif e.kind == "yield":
                    pass
            self._defs = d
        return self._defs

    def single_def(self, local):
        ds = [e for e in self.defs.get(local, [])]
        whole = [e for e in ds if (e.data["p"] if e.kind == "assign" else e.data["d"])[1] == []]
        if len(whole) == 1 and len(ds) == 1:
            return whole[0]
        # user variables re-assigned in loops: give up
        return None

    def local_name(self, l):
        if l == 0:
            return "_ret"
        return self.locals[l].get("name") or f"_{l}"

    def path_of_local(self, l, depth=0, through_user=True):
        """Symbolic access path of a local: follows single-definition temporaries through
        use/ref/cast/transparent calls. Returns a string."""
        if depth > 24:
            return self.local_name(l)
        if 1 <= l <= self.argc:
            if self.kind in ("closure", "coroutine") and l == 1:
                return "$env"
            return self.local_name(l)
        loc = self.locals[l]
        if loc.get("name") and not through_user:
            return loc["name"]
        e = self.single_def(l)
        if e is None:
            return self.local_name(l)
        if e.kind == "assign":
            r = e.data["r"]
            k = r["k"]
            if k == "use":
                o = r["o"]
                p = op_place(o)
                if p is not None:
                    return self.path_of_place(p, depth + 1, through_user)
                c = op_const(o)
                return "const:" + str(c.get("path") or c.get("s") or c.get("fn"))
            if k in ("ref", "rawptr"):
                return self.path_of_place(r["p"], depth + 1, through_user)
            if k == "cast":
                p = op_place(r["o"])
                if p is not None:
                    return self.path_of_place(p, depth + 1, through_user)
            if k == "agg":
                return f"agg:{r['adt']}::{r['variant']}"
            if k == "closure":
                return f"closure:{r['def']}"
            return self.local_name(l)
        if e.kind == "call":
            f = e.data["f"]
            d = f.get("def", "")
            if d in TRANSPARENT_METHODS or (d.endswith("::clone") and False):
                a = e.data["args"]
                if a:
                    p = op_place(a[0])
                    if p is not None:
                        return self.path_of_place(p, depth + 1, through_user)
            nm = loc.get("name")
            return nm if nm else f"call:{f.get('def', '?')}"
        return self.local_name(l)

    def path_of_place(self, place, depth=0, through_user=True):
        base = self.path_of_local(place[0], depth, through_user)
        parts = [base]
        for pr in place[1]:
            if pr == "*":
                continue
            if pr.startswith(".^"):
                parts.append("." + pr[2:])
            elif pr.startswith("."):
                parts.append(pr)
            elif pr.startswith("@"):
                parts.append(pr)
            elif pr == "[]":
                parts.append("[]")
        s = "".join(parts)
        if s.startswith("$env."):
            s = s[5:]
        return s

    def path_of_operand(self, op, through_user=True):
        p = op_place(op)
        if p is not None:
            return self.path_of_place(p, 0, through_user)
        c = op_const(op)
        if c is None:
            return "?"
        if "fn" in c:
            return "fn:" + c["fn"]
        return "const:" + str(c.get("path") or c.get("s"))

    def const_of_operand(self, op, depth=0):
        """Resolve an operand to a constant descriptor if it is one (through single-def temps):
        returns dict with any of s, v, path, or {'variant':..,'adt':..} for unit-variant aggregates."""
        c = op_const(op)
        if c is not None:
            return c
        p = op_place(op)
        if p is None or p[1] or depth > 8:
            return None
        e = self.single_def(p[0])
        if e is None or e.kind != "assign":
            return None
        r = e.data["r"]
        if r["k"] == "use":
            return self.const_of_operand(r["o"], depth + 1)
        if r["k"] == "agg" and not r["ops"]:
            return {"adt": r["adt"], "variant": r["variant"], "s": f"{r['adt']}::{r['variant']}"}
        if r["k"] == "cast":
            return self.const_of_operand(r["o"], depth + 1)
        return None

    def def_event_of_operand(self, op, depth=0):
        """The event that produced the operand's value (through plain moves/copies)."""
        p = op_place(op)
        if p is None or depth > 12:
            return None
        e = self.single_def(p[0])
        if e is None:
            return None
        if p[1]:
            return e
        if e.kind == "assign" and e.data["r"]["k"] == "use":
            q = op_place(e.data["r"]["o"])
            if q is not None and not q[1]:
                return self.def_event_of_operand(e.data["r"]["o"], depth + 1) or e
        return e

    def producer_call(self, op, depth=0):
        """The call event whose result this operand is (through moves, copies, refs, casts)."""
        p = op_place(op)
        if p is None or depth > 12:
            return None
        e = self.single_def(p[0])
        if e is None:
            return None
        if e.kind == "call":
            return e
        if e.kind == "assign":
            r = e.data["r"]
            if r["k"] in ("use", "cast"):
                return self.producer_call(r["o"], depth + 1)
            if r["k"] in ("ref", "rawptr"):
                return self.producer_call({"c": [r["p"][0], []]}, depth + 1)
        return None

    def readers_of_local(self, l):
        """events that read local l (as operand or through a place rooted at l)"""
        out = []
        for e in self.events:
            places = []
            if e.kind == "call":
                places = [op_place(a) for a in e.args]
            elif e.kind == "assign":
                r = e.data["r"]
                for k in ("o", "a", "b"):
                    if k in r and isinstance(r[k], dict):
                        places.append(op_place(r[k]))
                if "p" in r:
                    places.append(r["p"])
                for o in r.get("ops", []) or []:
                    places.append(op_place(o))
            elif e.kind in ("switch", "yield", "assert"):
                places = [op_place(e.data.get("o"))]
            if any(p is not None and p[0] == l for p in places):
                out.append(e)
        return out

    def only_formatted(self, call_event, depth=0):
        """the result of this call is consumed only by formatting machinery (diagnostics/log output)"""
        todo = [call_event.data["d"][0]]
        seen = set()
        any_reader = False
        while todo:
            l = todo.pop()
            if l in seen:
                continue
            seen.add(l)
            for e in self.readers_of_local(l):
                any_reader = True
                if e.kind == "assign" and e.data["r"]["k"] in ("ref", "use", "cast", "tuple", "array", "agg") and not e.data["p"][1]:
                    todo.append(e.data["p"][0])
                elif e.kind == "call" and (e.callee.startswith("core::fmt::") or e.callee.startswith("alloc::fmt::") or "telemetry" in e.callee):
                    continue
                else:
                    return False
        return any_reader

    def origin_call(self, op, depth=0):
        """Like producer_call, but looks through transparent calls (deref, Pin::new_unchecked,
        into_future, ...): the first non-transparent call the value comes from."""
        e = self.producer_call(op, depth)
        n = 0
        while e is not None and e.kind == "call" and e.callee in TRANSPARENT_METHODS and e.args and n < 12:
            e = self.producer_call(e.args[0])
            n += 1
        return e

    def awaits(self):
        """[(poll call event, future-creating call event or None, ready edges)] for every `.await`
        (and hand-written poll of a sub-future) in this body."""
        out = []
        for e in self.calls():
            if e.callee == "core::future::future::Future::poll" and e.args:
                src = self.origin_call(e.args[0])
                edges = []
                dest = e.data["d"][0]
                for blk in range(len(self.blocks)):
                    if self.is_cleanup(blk):
                        continue
                    t = self.term(blk)
                    if t["k"] == "switch" and t.get("on", {}).get("kind") == "discr" and t["on"]["p"][0] == dest and t["on"]["p"][1] == []:
                        edges.extend(self.edges_by_label(blk).get("Ready", []))
                out.append((e, src, edges))
        return out

    # ---------- switch analysis ----------
    def switch_source(self, b):
        """For a switch terminator at block b, describe what is switched on:
        {'kind': 'call', 'event': call Event, 'neg': bool}  — bool result of a call (possibly negated)
        {'kind': 'discr', 'adt':..., 'place_path':..., 'def': Event producing the matched place}
        {'kind': 'cmp', 'op':..., 'a': operand, 'b': operand, 'neg': bool}
        {'kind': 'place', 'path': ...} bool read of a place
        """
        t = self.term(b)
        if t["k"] != "switch":
            return None
        on = t.get("on", {})
        if on.get("kind") == "discr":
            pp = on["p"]
            return {"kind": "discr", "adt": on["adt"], "place": pp,
                    "place_path": self.path_of_place(pp),
                    "def": self.def_event_of_operand({"c": [pp[0], []]})}
        return self._bool_source(t["o"], False, 0)

    def _bool_source(self, op, neg, depth):
        p = op_place(op)
        if p is None or depth > 10:
            return {"kind": "unknown"}
        if p[1]:
            return {"kind": "place", "path": self.path_of_place(p), "neg": neg, "place": p}
        e = self.single_def(p[0])
        if e is None:
            return {"kind": "place", "path": self.path_of_place(p), "neg": neg, "place": p}
        if e.kind == "call":
            return {"kind": "call", "event": e, "neg": neg}
        if e.kind == "assign":
            r = e.data["r"]
            if r["k"] == "un" and r["op"] == "Not":
                return self._bool_source(r["a"], not neg, depth + 1)
            if r["k"] == "use":
                q = op_place(r["o"])
                if q is not None:
                    if q[1]:
                        return {"kind": "place", "path": self.path_of_place(q), "neg": neg, "place": q}
                    return self._bool_source(r["o"], neg, depth + 1)
                return {"kind": "const", "c": op_const(r["o"]), "neg": neg}
            if r["k"] == "bin":
                return {"kind": "cmp", "op": r["op"], "a": r["a"], "b": r["b"], "neg": neg, "event": e}
            if r["k"] == "discr":
                return {"kind": "discr_val", "place": r["p"], "neg": neg}
        return {"kind": "unknown"}

    def dead_const_edges(self):
        """Block edges that can never be taken because the switch scrutinee is a named boolean constant of the crate
        (`if EAGER_HANDOFF { .. }`): the edge whose label contradicts the constant's value. The constant is read from the
        type-checked program on every run, so flipping it flips the verdicts that depend on it."""
        if getattr(self, "_dead_edges", None) is None:
            dead = set()
            for blk in range(len(self.blocks)):
                if self.is_cleanup(blk) or self.term(blk)["k"] != "switch":
                    continue
                ss = self.switch_source(blk)
                if not ss or ss.get("kind") != "const":
                    continue
                c = ss.get("c") or {}
                if c.get("ty") != "bool" or "v" not in c or not c.get("path"):
                    continue
                val = bool(c["v"]) != bool(ss.get("neg"))
                for tgt, lab in self.succ_labeled(blk):
                    if lab in ("true", "false") and (lab == "true") != val:
                        dead.add((blk, tgt))
            self._dead_edges = frozenset(dead)
        return self._dead_edges

    def live_positions(self):
        """positions reachable from entry when compile-time-dead edges are not taken"""
        return self.entry_reach_set(removed_edges=self.dead_const_edges())

    def edges_by_label(self, b):
        """label -> list of (b, target) edges for a switch block."""
        out = defaultdict(list)
        for tgt, lab in self.succ_labeled(b):
            for l in (lab or "").split("|"):
                out[l].append((b, tgt))
        return out

    def __repr__(self):
        return f"<Body {self.id}>"


class Program:
    """All crates' facts for one configuration set."""

    def __init__(self):
        self.bodies = {}
        self.adts = {}
        self.impls = []
        self.fns = {}
        self.crates = {}
        self._callers = None

    def add(self, facts):
        key = facts["crate"] + ("+" + facts["tag"] if facts.get("tag") else "")
        self.crates[key] = {"cfg": facts["cfg"], "bodies": len(facts["bodies"]), "adts": len(facts["adts"])}
        for a in facts["adts"]:
            self.adts.setdefault(a["path"], a)
        for i in facts["impls"]:
            self.impls.append(i)
        for f in facts["fns"]:
            self.fns.setdefault(f["path"], f)
        for b in facts["bodies"]:
            if b["id"] not in self.bodies:
                self.bodies[b["id"]] = Body(self, b)

    def body(self, id):
        return self.bodies.get(id)

    def bodies_in(self, prefix):
        return [b for i, b in self.bodies.items() if i.startswith(prefix)]

    def impls_of(self, adt, trait=None):
        return [i for i in self.impls if i.get("self_adt_direct") == adt and (trait is None or i.get("trait") == trait)]

    def has_impl(self, adt, trait):
        return bool(self.impls_of(adt, trait))

    def methods_of(self, adt, inherent_only=False):
        out = []
        for b in self.bodies.values():
            if b.self_adt == adt and b.kind == "method" and b.raw.get("impl_self_ty") is not None:
                if inherent_only and b.impl_trait:
                    continue
                out.append(b)
        return out

    def children(self, body_id):
        """closures / coroutines nested directly in body_id."""
        return [b for b in self.bodies.values() if b.parent == body_id]

    def async_inner(self, body):
        """for an `async fn` stub, its coroutine body."""
        for c in self.children(body.id):
            if c.kind == "coroutine":
                return c
        return None

    def adt_fields(self, adt):
        a = self.adts.get(adt)
        if not a:
            return []
        out = []
        for v in a["variants"]:
            out.extend(v["fields"])
        return out

    # ---------- call graph ----------
    def callees_of(self, body, include_nested=True):
        """resolved callee def paths of a body (+ nested closures/coroutines it creates)."""
        out = set()
        for e in body.calls():
            out.add(e.callee_resolved)
        if include_nested:
            for c in self.children(body.id):
                out.add(c.id)
        return out

    def reaches(self, start_ids, target_pred, max_nodes=20000):
        """BFS over the call graph from start body ids; returns (hit_callee, path) for the first
        callee def path satisfying target_pred, else None."""
        seen = set(start_ids)
        dq = deque((s, (s,)) for s in start_ids)
        while dq:
            cur, path = dq.popleft()
            b = self.bodies.get(cur)
            if b is None:
                continue
            for c in sorted(self.callees_of(b)):
                if target_pred(c):
                    return c, path + (c,)
                if c not in seen and c in self.bodies:
                    seen.add(c)
                    dq.append((c, path + (c,)))
        return None

    def reach_closure(self, start_ids):
        seen = set(start_ids)
        dq = deque(start_ids)
        ext = set()
        while dq:
            cur = dq.popleft()
            b = self.bodies.get(cur)
            if b is None:
                ext.add(cur)
                continue
            for c in self.callees_of(b):
                if c not in seen:
                    seen.add(c)
                    dq.append(c)
        return seen


# ---------------------------------------------------------------------------
# data-flow helpers (intra-procedural, flow-insensitive over definitions)
# ---------------------------------------------------------------------------

def _deref_writes(body):
    """local -> assign events that write *through* the pointer held in the local (`(*_l).f = ..`): they do not
    define the local but they do decide what it points at (box/vec literals are built this way)."""
    dw = getattr(body, "_deref_writes", None)
    if dw is None:
        dw = defaultdict(list)
        for e in body.events:
            if e.kind == "assign" and e.data["p"][1] and e.data["p"][1][0] == "*":
                dw[e.data["p"][0]].append(e)
        body._deref_writes = dw
    return dw


def operand_sources(body, op, max_nodes=400, through_ptr=False):
    """Backward slice over definitions: all events (calls/assigns) and argument locals that can
    contribute to the value of `op`. Returns (events, arg_locals, consts).
    through_ptr: also follow writes made through a pointer held in a local on the slice."""
    evs, args, consts = [], set(), []
    seen = set()
    work = []

    def push_op(o):
        p = op_place(o)
        if p is not None:
            work.append(p[0])
        else:
            c = op_const(o)
            if c is not None:
                consts.append(c)

    push_op(op)
    n = 0
    while work and n < max_nodes:
        l = work.pop()
        if l in seen:
            continue
        seen.add(l)
        n += 1
        if 1 <= l <= body.argc:
            args.add(l)
        for e in list(body.defs.get(l, [])) + (list(_deref_writes(body).get(l, [])) if through_ptr else []):
            evs.append(e)
            if e.kind == "call":
                for a in e.args:
                    push_op(a)
            else:
                r = e.data["r"]
                k = r["k"]
                if k in ("use", "cast", "repeat"):
                    push_op(r["o"])
                elif k in ("ref", "rawptr", "discr"):
                    work.append(r["p"][0])
                elif k == "bin":
                    push_op(r["a"])
                    push_op(r["b"])
                elif k == "un":
                    push_op(r["a"])
                elif k in ("agg", "closure", "tuple", "array", "rawagg"):
                    for o in r["ops"]:
                        push_op(o)
    return evs, args, consts


def derives_from_call(body, op, pred):
    """Does the value of `op` data-depend on the result of a call satisfying pred(event)?"""
    evs, _, _ = operand_sources(body, op)
    return [e for e in evs if e.kind == "call" and pred(e)]


def alias_locals(body, root_local):
    """Locals that receive (a move/copy of) root_local or of one of its variant payloads
    (`(x as Some).0`, `(x as Ready).0`, `(x as Ok).0`)."""
    out = {root_local}
    changed = True
    while changed:
        changed = False
        for e in body.events:
            if e.kind != "assign":
                continue
            r = e.data["r"]
            if r["k"] != "use":
                continue
            p = op_place(r["o"])
            if p is None or p[0] not in out:
                continue
            proj = [x for x in p[1]]
            ok = (not proj) or all(x.startswith("@") or x in (".0",) for x in proj)
            if not ok:
                continue
            d = e.data["p"]
            if d[1] == [] and d[0] not in out:
                out.add(d[0])
                changed = True
    return out


def guard_held_positions(body, acquire, success_edges=None):
    return guards_held(body, [(acquire, success_edges)])


def guards_held(body, acqs):
    """Positions at which a guard produced by one of the acquisitions `acqs` = [(call event, success
    edges | None)] is certainly held: on every path from entry, the most recent of
    {acquisition, kill} is an acquisition. success edges: block edges on which the acquisition
    succeeded (the `Some` edge of a try_lock, the `Ready` edge of a lock future's poll);
    None = the call's normal return. Returns (held positions, kill positions, guard locals)."""
    gl = set()
    for acq, _ in acqs:
        gl |= alias_locals(body, acq.data["d"][0])
    acq_events = {a for a, _ in acqs}
    moved_from = {}
    for e in body.events:
        if e.kind == "assign" and e.data["r"]["k"] == "use":
            p = op_place(e.data["r"]["o"])
            if p is not None and p[0] in gl and "m" in e.data["r"]["o"] and e.data["p"][0] in gl and e.data["p"][0] != p[0]:
                moved_from.setdefault(p[0], []).append(e.pos)
    kills = set()
    for e in body.events:
        if e.kind == "drop" and e.data["p"][0] in gl and e.data["p"][1] == []:
            l = e.data["p"][0]
            if l in moved_from and any(body.dominated_by_any(e.pos, {mp}) for mp in moved_from[l]):
                continue
            kills.add(e.pos)
        elif e.kind == "call" and e not in acq_events:
            for a in e.args:
                if "m" in a and a["m"][0] in gl and a["m"][1] == []:
                    kills.add(e.pos)  # the guard itself is moved into a callee (mem::drop, or handed over)
        elif e.kind == "dead" and e.data["dead"] in gl:
            if e.data["dead"] in moved_from:
                continue
            kills.add(e.pos)
    rem_pos = frozenset(a.pos for a, es in acqs if not es)
    rem_edges = frozenset(x for _, es in acqs if es for x in es)
    held = set()
    for acq, es in acqs:
        if es:
            for (_, t) in es:
                held |= body.pos_reach_set((t, 0), removed=frozenset(kills), strict=False)
        else:
            held |= body.pos_reach_set(acq.pos, removed=frozenset(kills), strict=True)
    held -= body.entry_reach_set(removed=rem_pos, removed_edges=rem_edges)
    for k in kills:
        held -= body.pos_reach_set(k, removed=rem_pos, removed_edges=rem_edges, strict=True)
    return held, kills, gl
