"""Type-level witnesses (DESIGN.md §2.3/§9.10): compile_fail doctests + compiling twins in /verif/witness, judged by rustc (nightly, so that the
error codes are checked). Static: the doctest bodies are type-checked; the twins that compile are also run by rustdoc, but they only construct a
channel or a lock and return — no verdict depends on what they do."""
import os
import re
import shutil
import subprocess

VERIF = os.path.dirname(os.path.dirname(os.path.abspath(__file__)))
WDIR = os.path.join(VERIF, "witness")

OWNERS = {  # witness name prefix -> (property, rule id, clause)
    "Spsc": ("C01", "C01-W"), "Mpsc": ("C01", "C01-W"), "Oneshot": ("C01", "C01-W"),
    "Spmc": ("C07", "C07-W"),
    "ReadGuard": ("C10", "C10-W"), "Guard": ("C10", "C10-W"),
}
CLAUSE = {
    "C01-W": "type-level witnesses (compile_fail doctest + compiling twin, checked by rustc): the single-endpoint handles of spsc, mpsc and oneshot are not Clone, "
             "and the spsc handles are not Sync",
    "C07-W": "type-level witnesses: the broadcast ring's sync sender is neither Clone nor Sync",
    "C10-W": "type-level witnesses: a ReadGuard cannot be written through, and no guard outlives its lock",
}


def run(repo, prop):
    """returns (list of (rule, key, status, detail)) for the witnesses owned by prop, or an error string"""
    mine = {k: v for k, v in OWNERS.items() if v[0] == prop}
    if not mine:
        return []
    work = os.path.join(VERIF, ".cache", "witness-" + re.sub(r"[^A-Za-z0-9]+", "_", os.path.abspath(repo)))
    os.makedirs(os.path.join(work, "src"), exist_ok=True)
    shutil.copy(os.path.join(WDIR, "src", "lib.rs"), os.path.join(work, "src", "lib.rs"))
    with open(os.path.join(WDIR, "Cargo.toml.in")) as fh:
        toml = fh.read().replace("@REPO@", os.path.abspath(repo))
    with open(os.path.join(work, "Cargo.toml"), "w") as fh:
        fh.write(toml)
    shutil.copy(os.path.join(repo, "Cargo.lock"), os.path.join(work, "Cargo.lock"))
    env = dict(os.environ, CARGO_NET_OFFLINE="true", CARGO_TARGET_DIR=os.path.join(work, "target"))
    r = subprocess.run(["cargo", "+nightly", "test", "--doc", "--offline"], cwd=work, env=env, stdout=subprocess.PIPE, stderr=subprocess.STDOUT, text=True)
    out = r.stdout
    tests = {}
    for m in re.finditer(r"^test src/lib\.rs - (\w+) \(line \d+\)( - compile fail)? \.\.\. (ok|FAILED)", out, re.M):
        tests.setdefault(m.group(1), {})["fail" if m.group(2) else "twin"] = m.group(3)
    if not tests:
        return "witness crate did not build or produced no doctest results:\n" + out[-1500:]
    res = []
    for name, t in sorted(tests.items()):
        owner = next((v for k, v in sorted(mine.items(), key=lambda kv: -len(kv[0])) if name.startswith(k)), None)
        if owner is None:
            continue
        rule = owner[1]
        if t.get("fail") == "ok" and t.get("twin") == "ok":
            res.append((rule, f"witness:{name}", "holds", "the offending program is rejected with the expected error code and its twin compiles"))
        elif t.get("twin") != "ok":
            res.append((rule, f"witness:{name}", "unclassified", "the compiling twin no longer compiles: the API the witness names has changed, re-read it"))
        else:
            res.append((rule, f"witness:{name}", "violated", "the program that must not type-check compiles (or fails with a different error): the type-level guarantee is gone"))
    return res
