#!/usr/bin/env python3
"""run_refactors.py <dir-with-*.diff> [--jobs 3] : apply each behaviour-preserving patch to a scratch copy of /repo and run EVERY registered check on it.
Any VIOLATION line (known findings excluded) on such a patch is a false alarm of the machinery and has to be repaired in the rules."""
import glob
import json
import os
import shutil
import subprocess
import sys
import tempfile
import time
from concurrent.futures import ThreadPoolExecutor

VERIF = os.path.dirname(os.path.dirname(os.path.abspath(__file__)))


def worker(idx, paths, props):
    scratch = tempfile.mkdtemp(prefix=f"fibre-refactor{idx}.")
    out = []
    try:
        for path in paths:
            subprocess.run(["rsync", "-a", "--delete", "--exclude", "target", "--exclude", ".git", "/repo/", scratch + "/"], check=True)
            r = subprocess.run(["patch", "-p1", "-s", "-i", path], cwd=scratch, stdout=subprocess.PIPE, stderr=subprocess.STDOUT, text=True)
            if r.returncode != 0:
                out.append((path, "NOAPPLY", [r.stdout[-200:]]))
                print(f"NOAPPLY {path}", flush=True)
                continue
            t0 = time.time()
            alarms = []
            for p in props:
                rr = subprocess.run([os.path.join(VERIF, "check"), p, "--repo", scratch, "--no-evidence"], stdout=subprocess.PIPE, stderr=subprocess.STDOUT, text=True)
                if "extraction failed" in rr.stdout:
                    alarms.append(f"{p}: BUILD-FAIL {rr.stdout[-200:]}")
                    break
                lines = rr.stdout.splitlines()
                for i, l in enumerate(lines):
                    if l.startswith("VIOLATION"):
                        alarms.append(f"{p}: {l[:200]} || {lines[i + 1][:300] if i + 1 < len(lines) else ''}")
            out.append((path, "ALARM" if alarms else "SILENT", alarms))
            print(f"{'ALARM ' if alarms else 'SILENT'} {os.path.basename(os.path.dirname(path))}/{os.path.basename(path)} ({time.time() - t0:.0f}s)", flush=True)
            for a in alarms:
                print("     " + a, flush=True)
    finally:
        shutil.rmtree(scratch, ignore_errors=True)
    return out


def main():
    d = sys.argv[1]
    jobs = int(sys.argv[sys.argv.index("--jobs") + 1]) if "--jobs" in sys.argv else 3
    props = [c["property_id"] for c in json.load(open(os.path.join(VERIF, "MANIFEST.json")))["checks"]]
    paths = sorted(glob.glob(os.path.join(d, "*.diff")))
    chunks = [paths[i::jobs] for i in range(jobs)]
    res = []
    with ThreadPoolExecutor(jobs) as ex:
        for r in ex.map(lambda t: worker(t[0], t[1], props), enumerate(chunks)):
            res.extend(r)
    os.makedirs(os.path.join(VERIF, "out"), exist_ok=True)
    json.dump([{"patch": p, "verdict": v, "alarms": a} for p, v, a in res], open(os.path.join(VERIF, "out", "refactor_results.json"), "w"), indent=1)
    print({v: sum(1 for _, x, _ in res if x == v) for v in ("SILENT", "ALARM", "NOAPPLY")})


if __name__ == "__main__":
    main()
