#!/bin/bash
# confirm_seed.sh <worktree> <package> <demo-test-name> : demo fails with the change, existing tests of the package pass with it, demo passes without it
set -u
wt=$1; pkg=$2; demo=$3
export CARGO_NET_OFFLINE=true CARGO_TARGET_DIR=${wt}_target
cd $wt || exit 2
echo "== with change: demo (expect FAIL)"
timeout 900 cargo test --offline -p $pkg --test $demo 2>&1 | grep -E "^test |test result|panicked|error" | head -20
echo "== with change: existing suite of $pkg (expect PASS apart from the 2 pre-existing timeouts)"
timeout 3000 cargo nextest run -p $pkg --no-fail-fast --tool-config-file pb:/w/lib/nextest.toml --profile pb --test-threads 8 --offline -E "not binary($demo)" 2>&1 | grep -E "Summary|FAIL|TIMEOUT|SIGABRT" | sort | uniq | head -20
echo "== without change: demo (expect PASS)"
git apply -R patch.diff || exit 3
timeout 900 cargo test --offline -p $pkg --test $demo 2>&1 | grep -E "^test |test result|panicked|error" | head -20
git apply patch.diff
