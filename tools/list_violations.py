#!/usr/bin/env python3
"""print every violated/unclassified instance key of every rule module (for triage)"""
import importlib, os, sys
HERE = os.path.dirname(os.path.dirname(os.path.abspath(__file__)))
sys.path.insert(0, os.path.join(HERE, "engine")); sys.path.insert(0, HERE)
import facts, mir
d, _ = facts.ensure_facts("quick", quiet=True)
P = mir.Program()
for c in facts.CRATES:
    P.add(facts.load(d, c))
P.add(facts.load(d, "fibre_ioc", "local"))
for f in sorted(os.listdir(os.path.join(HERE, "rules"))):
    if not (f.startswith("c") and f[1:3].isdigit() and f.endswith(".py")):
        continue
    mod = importlib.import_module("rules." + f[:-3])
    res = mod.run(P, {"tier": "quick"})
    bad = [i for i in res.instances if i.status != "holds"]
    print(f"{res.prop}: {len(res.instances)} instances, {len(bad)} not holding")
    for i in bad:
        print(f"   {i.status} {i.key}")
