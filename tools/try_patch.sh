#!/bin/bash
# try_patch.sh <patch> <prop> [<prop>...] : apply a patch to a scratch copy of /repo and run the named checks on it (debug aid)
p=$1; shift
s=$(mktemp -d /tmp/fibre-try.XXXXXX)
rsync -a --exclude target --exclude .git /repo/ $s/
( cd $s && patch -p1 -s -i $p ) || { echo "patch does not apply"; rm -rf $s; exit 2; }
for prop in "$@"; do /verif/check $prop --repo $s --no-evidence | grep -E "^VIOLATION|^\[$prop\]|extraction failed" | cut -c1-260; done
rm -rf $s
