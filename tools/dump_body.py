#!/usr/bin/env python3
"""dump_body.py <substr> [name] : print raw facts of matching bodies (debug aid)"""
import sys, json
sys.path[:0] = ["/verif", "/verif/engine"]
from engine import facts, mir
d, _ = facts.ensure_facts("quick")
P = mir.Program()
for c in facts.CRATES:
    P.add(facts.load(d, c))
for b in P.bodies.values():
    if sys.argv[1] in b.id and (len(sys.argv) < 3 or b.name == sys.argv[2]):
        print("##", b.id, b.raw.get("file"), b.raw.get("line"))
        for i, l in enumerate(b.raw["locals"]):
            print("  _%d: %s %s" % (i, l.get("ty"), l.get("name") or ""))
        for blk in b.raw["blocks"]:
            print(json.dumps(blk)[:2500])
