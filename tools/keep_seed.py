#!/usr/bin/env python3
"""keep_seed.py <dir-name> <property> <worktree> <demo-relpath> <caught-by|-> <needs> <what> : copy patch.diff + demo and write meta.json"""
import json, os, shutil, sys
name, prop, wt, demo, caught, needs, what = sys.argv[1:8]
ran = sys.argv[8] if len(sys.argv) > 8 else ""
d = os.path.join("/verif/seeded", name)
os.makedirs(d, exist_ok=True)
shutil.copy(os.path.join(wt, "patch.diff"), os.path.join(d, "patch.diff"))
shutil.copy(os.path.join(wt, demo), os.path.join(d, os.path.basename(demo)))
meta = {"property": prop, "breaks": what, "needs_to_manifest": needs, "demo": os.path.basename(demo), "demo_location_in_repo": demo,
        "confirmed": "applied in a scratch worktree of /repo (commit named under ran): crate compiles, the crate's existing tests pass with the change, the demo fails with the change and passes without it",
        "ran": ran, "caught_by": ([] if caught == "-" else caught.split(",")),
        "apply": f"git -C /repo apply /verif/seeded/{name}/patch.diff ; ./check {prop} ; git -C /repo checkout -- ."}
json.dump(meta, open(os.path.join(d, "meta.json"), "w"), indent=1)
print("kept", d)
