#!/usr/bin/env python3
"""run_ideas.py [--dir /tmp/ideas] [--jobs 4] [--only C05] : apply each <dir>/<PROP>/<n>.diff to a scratch copy of /repo and run ./check PROP on it.
Unconfirmed idea probes (no demonstration): used to look for blind spots, never kept as seeded changes."""
import argparse, glob, json, os, shutil, subprocess, sys, tempfile, time
from concurrent.futures import ThreadPoolExecutor
VERIF = os.path.dirname(os.path.dirname(os.path.abspath(__file__)))


def worker(items, idx, extra):
    scratch = tempfile.mkdtemp(prefix=f"fibre-ideas{idx}.")
    out = []
    try:
        subprocess.check_call(["rsync", "-a", "--exclude", "target", "--exclude", ".git", "/repo/", scratch + "/"])
        for prop, path in items:
            t0 = time.time()
            r = subprocess.run(["patch", "-p1", "-s", "-i", path], cwd=scratch, stdout=subprocess.PIPE, stderr=subprocess.STDOUT, text=True)
            if r.returncode != 0:
                out.append((prop, path, "NOAPPLY", r.stdout[-200:]))
                subprocess.run(["rsync", "-a", "--delete", "--exclude", "target", "--exclude", ".git", "/repo/", scratch + "/"])
                continue
            st = []
            for p in [prop] + extra.get(prop, []):
                rr = subprocess.run([os.path.join(VERIF, "check"), p, "--repo", scratch, "--no-evidence"], stdout=subprocess.PIPE, stderr=subprocess.STDOUT, text=True)
                v = [l for l in rr.stdout.splitlines() if l.startswith("VIOLATION")]
                if "extraction failed" in rr.stdout:
                    st.append((p, "BUILD-FAIL", rr.stdout[-300:]))
                    break
                st.append((p, "CAUGHT" if v else "MISSED", ";".join(x.split("replay=")[-1].rsplit("/", 1)[-1][:90] for x in v[:3])))
                if v and len(extra.get(prop, [])) > 4:
                    break
            subprocess.run(["patch", "-p1", "-s", "-R", "-i", path], cwd=scratch, stdout=subprocess.PIPE, stderr=subprocess.STDOUT)
            verdict = "BUILD-FAIL" if any(s[1] == "BUILD-FAIL" for s in st) else ("CAUGHT" if any(s[1] == "CAUGHT" for s in st) else "MISSED")
            out.append((prop, path, verdict, st))
            print(f"{verdict} {prop} {os.path.basename(path)} ({time.time()-t0:.0f}s) {[(s[0], s[1], s[2][:100]) for s in st if s[1] != 'MISSED']}", flush=True)
    finally:
        shutil.rmtree(scratch, ignore_errors=True)
    return out


def main():
    ap = argparse.ArgumentParser()
    ap.add_argument("--dir", default="/tmp/ideas")
    ap.add_argument("--jobs", type=int, default=4)
    ap.add_argument("--only", default=None)
    ap.add_argument("--out", default=os.path.join(VERIF, "out", "ideas_results.json"))
    ap.add_argument("--all", action="store_true", help="run every claimed check on every idea (cross-property catches)")
    ap.add_argument("--from-results", default=None, help="only ideas whose verdict in this results file is --verdict")
    ap.add_argument("--verdict", default="MISSED")
    a = ap.parse_args()
    # sibling properties whose checks legitimately own a clause of the given one
    extra = {"C03": ["C07"], "C07": ["C05", "C03"], "C08": ["C04"], "C17": ["C12"], "C11": ["C12"], "C02": []}
    if a.all:
        allp = [c["property_id"] for c in json.load(open(os.path.join(VERIF, "MANIFEST.json")))["checks"]]
        extra = {p: [q for q in allp if q != p] for p in allp + ["C14", "C20"]}
    sel = None
    if a.from_results:
        sel = set()
        for f in a.from_results.split(","):
            sel |= {(r["prop"], os.path.basename(r["patch"])) for r in json.load(open(f)) if r["verdict"] == a.verdict}
    items = []
    for d in sorted(glob.glob(os.path.join(a.dir, "C*"))):
        prop = os.path.basename(d)
        if a.only and prop not in a.only.split(","):
            continue
        for f in sorted(glob.glob(os.path.join(d, "*.diff"))):
            if sel is None or (prop, os.path.basename(f)) in sel:
                items.append((prop, f))
    chunks = [items[i::a.jobs] for i in range(a.jobs)]
    res = []
    with ThreadPoolExecutor(a.jobs) as ex:
        for r in ex.map(lambda t: worker(t[1], t[0], extra), enumerate(chunks)):
            res.extend(r)
    os.makedirs(os.path.dirname(a.out), exist_ok=True)
    json.dump([{"prop": p, "patch": f, "verdict": v, "detail": s} for p, f, v, s in res], open(a.out, "w"), indent=1)
    from collections import Counter
    print(Counter(v for _, _, v, _ in res))


if __name__ == "__main__":
    main()
