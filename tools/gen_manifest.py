#!/usr/bin/env python3
"""Generate /verif/MANIFEST.json from the per-property registry below (single source of truth)."""
import json
import os

VERIF = os.path.dirname(os.path.dirname(os.path.abspath(__file__)))

TB = ("Trusted base: rustc nightly front end and MIR construction (mir_promoted facts), the extractor in /verif/extractor, the engine in "
      "/verif/engine and the frozen slot tables in /verif/rules. Normal control flow only (unwind edges not analysed). Decides the named "
      "structural clauses, which are necessary conditions of the property, on every instance and every path; it does not decide the "
      "behavioural property over schedules/histories.")

CLAIMED = {
    # id: (technique, what the check gives, design section)
    "C05": ("MIR CFG path rule (register -> barrier -> re-check -> park; lock-based variant via must-held guard analysis) over slot tables",
            "At every one of the park sites of fibre (enumerated from the resolved program; an uncovered park site fails the check) the "
            "blocking protocol has the shape that excludes the classic lost-wakeup window on every control-flow path. Static rule verdicts, "
            "not a liveness proof.", "§4 C05"),
    "C15": ("MIR must-held guard analysis + dominator rules on the loader bodies",
            "Leader election is one critical section, insert -> remove marker -> complete order, and completion/waiter registration share "
            "one mutex, on every path of the four leader-election sites, both loader bodies and both waiter forms.", "§4 C15"),
    "C16": ("MIR edge-dominance + backward data-flow (value of the notification derives from the removed entry) + exactly-once path rule",
            "Every listener notification site is tied to the success edge of a shard-map removal, carries that entry's value, uses the "
            "reason that belongs to its remover, and each listed removal is notified exactly once when a sender is configured.", "§4 C16"),
    "C18": ("who-may-use rule on the singleton factory field, must-held guard analysis for the cycle guard, field-read sets of eq/hash, sibling effect-sequence agreement",
            "Once-cell discipline, cycle guard coverage, key identity, overwrite-on-register and Container/LocalContainer agreement over "
            "both feature configurations of fibre_ioc.", "§4 C18"),
}

NOT_APPLICABLE = {
    "C02": "FIFO order is a property of value histories (index arithmetic, link order, push_back vs push_front): no clause is visible in the shape of the code beyond the publication-order clauses already decided under C01/C07; claiming C02 through them would overstate (DESIGN §5).",
    "C14": "Quantifies over arbitrary admit/access/remove/evict call sequences against per-policy bookkeeping (segment sizes, ghost lists, sketch counters): runtime values, no common structural clause across eight deliberately different algorithms (DESIGN §5).",
    "C20": "Escaping round-trips for arbitrary Unicode, padding/truncation and roll/retention arithmetic are functions of input values and clock steps; the only structural fact (serde_json + one newline) constrains no realistic change (DESIGN §5).",
}
PENDING = "rule module under construction / violations on the pinned tree still being triaged (demonstrate, then fix or list); not registered until the check is silent on the unchanged tree"


def main():
    props = [json.loads(l) for l in open(os.path.join(VERIF, "properties.jsonl"))]
    checks = []
    na = []
    for p in props:
        pid = p["id"]
        if pid in CLAIMED:
            tech, text, ref = CLAIMED[pid]
            checks.append({
                "property_id": pid,
                "quick_cmd": f"./check {pid} --tier quick",
                "thorough_cmd": f"./check {pid} --tier thorough",
                "evidence_file": f"/verif/evidence/{pid}.json",
                "replay_cmd_template": f"./check {pid} --replay {{path}}",
                "engine": "fibre-facts+rules",
                "level_claimed": {"category": "other", "text": text, "design_ref": ref},
                "level_note": TB,
                "technique": "static analysis: " + tech,
            })
        elif pid in NOT_APPLICABLE:
            na.append({"property_id": pid, "reason": NOT_APPLICABLE[pid]})
        else:
            na.append({"property_id": pid, "reason": PENDING})
    m = {
        "version": 1,
        "setup_cmd": "cd /verif/extractor && CARGO_NET_OFFLINE=true cargo build --release --offline",
        "hooks": {
            "guard": "excsn_fibre_verif",
            "enable": "none: the checks read /repo's sources through rustc (cargo +nightly check with a RUSTC_WORKSPACE_WRAPPER driver); no hook is compiled into excsn/fibre",
            "baseline_off_cmd": "cd /repo && cargo test --workspace --no-fail-fast --offline",
            "source_commits": [],
            "add_only": True,
        },
        "engines": [
            {"name": "fibre-facts", "path": "/verif/extractor", "serves_properties": sorted(CLAIMED),
             "kind_free_text": "rustc_private driver: serialises pre-coroutine-transform MIR (mir_promoted), ADTs, impls and auto-trait verdicts of every workspace crate as JSON facts"},
            {"name": "rules", "path": "/verif/engine + /verif/rules", "serves_properties": sorted(CLAIMED),
             "kind_free_text": "Python rule engine: CFG reachability/dominance by node/edge removal, must-held guard analysis, backward data-flow slices, call-graph reachability; per-property rule modules with frozen slot tables"},
        ],
        "checks": checks,
        "notes": "Static analysis only: no registered check executes code of /repo. See DESIGN.md. Known findings: /verif/known_findings.json.",
        "not_applicable": na,
    }
    with open(os.path.join(VERIF, "MANIFEST.json"), "w") as fh:
        json.dump(m, fh, indent=1)
    print("claimed:", sorted(CLAIMED), "n/a:", [x["property_id"] for x in na])


if __name__ == "__main__":
    main()
