#!/usr/bin/env python3
"""Generate /verif/MANIFEST.json from the per-property registry below (single source of truth)."""
import json
import os

VERIF = os.path.dirname(os.path.dirname(os.path.abspath(__file__)))

TB = ("Trusted base: rustc nightly front end and MIR construction (mir_promoted facts), the extractor in /verif/extractor, the engine in "
      "/verif/engine and the frozen slot tables in /verif/rules. Normal control flow only (unwind edges not analysed). Decides the named "
      "structural clauses, which are necessary conditions of the property, on every instance and every path; it does not decide the "
      "behavioural property over schedules/histories.")

CLAIMED = {
    # id: (technique, what the check gives, design section)
    "C01": ("must-held guard analysis (handoff under the channel lock), edge-dominance (timed receive), payload publication order + release/acquire discipline on synchronisation fields, backward data-flow (unsent derives from input), auto-trait/receiver-kind facts",
            "Five structural clauses over the point-to-point channels: waiter-state transitions and transfer helpers only under the channel mutex; Timeout only behind a successful "
            "withdrawal; every payload write followed by a >=Release publish and every payload read preceded by a >=Acquire guard, with all ~200 sites on synchronisation fields at "
            "the required strength; batch errors carry the caller's items; single-endpoint handles are exclusive by type; the iterator given to resolve_run is bounded by the same `valid` count at all 5 sites. Multiset equality of sent/received values is not decided.", "§4 C01"),
    "C02": ("who-may-call rule on the ends of the payload queues, edge-dominance of the chain dequeue by the reclaimed-empty edge, order-preserving-operation rule over batch containers",
            "PARTIAL: three order-relevant shapes only — payload queues are FIFO-ended and recovered values re-enter at the head, the mpmc-unbounded chain is dequeued only after the "
            "reclaimed queue was found empty, and the 49 batch bodies walk the caller's container front to back. Ring index arithmetic, ticket/tombstone order, chunk/slab "
            "recycling, link order and every interleaving-dependent part of C02 are not decided.", "§9.2 C02"),
    "C03": ("edge-dominance of value-carrying commits by the admission predicate; must-held guard analysis; dominance order of payload read vs cursor/state writes in the lock-free rings",
            "Admission-gate shape at the 20 commit sites whose admission predicate is a call (mpsc-bounded credit, mpmc-bounded fullness under the lock, oneshot CAS, rendezvous pairing). "
            "In the three lock-free bounded rings a slot is handed back (cursor/state write) only after its payload read, and always with a >=Release write. "
            "SPSC/SPMC index arithmetic and len()<=capacity as numbers are not decided.", "§4 C03"),
    "C04": ("interprocedural closed-gate dominance over every send/receive form and future, counter inc/dec pairing for Clone handles, data-flow of the closed flag through conversions, flag-won edge dominance in Drop/close, liveness-read -> re-drain -> Disconnected path rule",
            "Every operation of all 42 handle types (and the poll of every future holding a handle) consults that handle's closed flag; Clone handles are counted and the last-handle test "
            "is branched on; conversions carry the closed state; Drop/close act only when they won the flag; wherever a receive form decides Disconnected itself, every path from the last sender-liveness read passes another dequeue attempt (straggler re-drain).", "§4 C04"),
    "C05": ("MIR CFG path rule (register -> barrier -> re-check -> park; lock-based variant via must-held guard analysis), SeqCst-fence-dominates-gate rule, publish=>notify must-follow rows, close-path wake rule (Drop::drop -> close -> drop_* chain: wake on every path not excused by a closed/last-handle test)",
            "At every park site of fibre (an uncovered park site fails the check) the blocking protocol excludes the classic lost-wakeup window on every path; every notifier gate read follows a "
            "SeqCst fence; every publishing event is followed by its notifier; closing the last handle of a side wakes the other side in all 92 close-path bodies. Static rule verdicts, not a liveness proof.", "§4 C05"),
    "C06": ("dominance of every Poll::Pending by a registration that consumes the current Context/waker; call-graph pairing of registration kinds with Drop withdrawals; wake-forwarding reachability; Ready-reachability without withdrawal for the wake-metered async-send queue",
            "All 58 hand-written Pending sites re-register the current waker; every future type whose registration is pointer-held or wake-metered withdraws it on Drop (and on forget-conversions); "
            "wake-one protocols forward a consumed wake (11 demonstrated known findings); the three mpsc-bounded send futures withdraw their queue entry before every Ready.", "§4 C06"),
    "C07": ("auto-trait/receiver-kind facts, payload publication order + release/acquire discipline on the spmc module, must-held guard analysis on the cursor list, capture-use analysis of left_right::modify closures",
            "Single-producer exclusivity by type, publish order/strength of the broadcast ring, cursor-list maintenance on clone/drop of receivers, and replayable left-right update closures. Per-receiver delivery order is not decided.", "§4 C07"),
    "C08": ("the C04 rule instances restricted to the topic handles + call-graph reachability (publishing reaches no blocking primitive) + capture-use analysis of left_right::modify closures",
            "Disconnect-protocol clauses on the four topic handle types, publish-never-waits, and replayable subscriber-list updates (the closure given to modify never consumes a capture). Routing by subscription history is not decided.", "§4 C08"),
    "C09": ("field-set equality at mem::forget(self) (ptr::read multiset vs drop-glue fields), type selector + Drop reachability for payload owners, must-follow for reclaimed items, backward data-flow of slot indices (masked vs derived from the logical capacity)",
            "All 40 forget-conversions move each owning field exactly once; every payload-owning storage type drains on Drop; recovered items re-enter; slot indices of rings with a physical mask "
            "never derive unmasked from the logical capacity.", "§4 C09"),
    "C10": ("edge-dominance of guard construction by acquisition success, ordering floors on lock-word RMWs, park/Pending protocol path rule, must-held guard analysis in Drop of lock futures, impl/field-access facts, constant-mask agreement between announcers and wake gates",
            "Seven clauses over HybridMutex/HybridRwLock: guards only after acquisition, release strength, release-before-wake, queue-and-recheck before sleeping (sync and async), cancel-safe unlink "
            "and wake forwarding, ReadGuard has no DerefMut / node fields private to the wait queue / try_ variants cannot park, every wake-gate mask in unlock* intersects every announced sleeper mask.", "§4 C10"),
    "C11": ("guard-flow (the acquired write guard is the one moved into the Entry), Arc::get_mut success-edge dominance for compute, effect-multiset sibling comparison of blocking vs async handles",
            "Entry check-and-insert is one critical section; compute runs only with exclusive access under the write guard; 32 blocking/async method pairs perform identical cache effects. "
            "Per-key linearizability is not decided.", "§4 C11"),
    "C12": ("edge-dominance of every value read by the not-expired edge of is_expired on the same entry (or the stale-while-revalidate branch), Expired-reason justification, call-graph reachability for peek, argument-to-parameter role agreement for the two expiry durations",
            "Every value read of a looked-up entry is behind the expiry gate; Expired removals are justified by the deadline; peek refreshes nothing (3 demonstrated known findings); configured time_to_live/time_to_idle reach the parameter of the same role at all 36 call sites.", "§4 C12"),
    "C13": ("must-follow + backward data-flow (subtracted amount derives from the removed entry's cost), who-may-write the counter, insertion=>policy event, must-held guard analysis for maintenance",
            "Removal=>subtract-that-entry's-cost at all 21 map mutation sites, only map-mutating code writes current_cost, every insertion is announced to the policy, maintenance runs under the shard's maintenance lock.", "§4 C13"),
    "C14": ("backward data-flow (victims and reported costs derive from records just removed from the tracking structures), must-follow path rule (a removed resident key is nominated, "
            "re-tracked or returned on every path), must-pass rule for the cost parameter of on_admit, edge-dominance of insertion-capable calls in on_access by a tracked-test, "
            "paired-structure agreement, LRU/FIFO definition shapes",
            "PARTIAL: seven structural clauses over the built-in policies (arc, clock, fifo, lru, random, sieve, slru, tinylfu): nominated keys and reported "
            "costs come from records the policy just stopped tracking; a resident key leaves the tracking structures only by nomination, re-tracking or on_remove/clear; on_admit records the "
            "given cost on every path (1 demonstrated known finding: FIFO; ARC/Clock/SLRU repaired); on_access never starts tracking; paired structures and the LruList total move together; "
            "LRU moves on access and evicts from the back, FIFO never reorders. Which victim is picked (segment sizing, ARC adaptation, sketch estimates, clock hand) and 'frees at least the "
            "requested cost' as a number are not decided.", "§9.8 C14"),
    "C15": ("MIR must-held guard analysis + dominator rules on the loader bodies",
            "Leader election is one critical section, insert -> remove marker -> complete order, and completion/waiter registration share one mutex.", "§4 C15"),
    "C16": ("edge-dominance + backward data-flow (notification value derives from the removed entry) + exactly-once path rule",
            "Every listener notification is tied to the success edge of a removal, carries that entry's value and the remover's reason, exactly once per listed removal; a to-be-sent list is re-created between two readings.", "§4 C16"),
    "C17": ("the C12 expiry-gate instances of iterators/snapshots + restore-is-an-insertion rows + edge-dominance of refill returns by batch-full / shards-exhausted / finished edges",
            "Everything iterators and snapshots yield is expiry-gated; a refill returns only with a full batch or exhausted shards; restore accounts cost, uses the store's shard index, and must announce entries to the policy (1 demonstrated known finding).", "§4 C17"),
    "C18": ("who-may-use rule on the singleton factory field, must-held guard analysis for the cycle guard, field-read sets of eq/hash, sibling effect-sequence agreement",
            "Once-cell discipline, cycle guard coverage, key identity, overwrite-on-register and Container/LocalContainer agreement over both feature configurations of fibre_ioc.", "§4 C18"),
    "C19": ("call-graph reachability (both front ends reach process_event), who-may-write the appender channels, one-send-per-iteration path rule, Block-arm edge region",
            "One delivery path, each selected appender written once per event by the designated helper, Block policy performs the blocking send. Routing as a function of configuration and the shutdown window are not decided.", "§4 C19"),
}

# clauses added while working through the seeded changes and idea probes (DESIGN §9.6/§9.7); appended to the claim text of each check
ADDENDA = {
    "C01": "Also: the caller's `sent` counter advances by the same `valid` next to every resolve_run.",
    "C03": "Also: occupancy is compared strictly against capacity at all 22 comparison sites (`occ < cap` / `occ >= cap`), mpmc admission uses the logical is_full(capacity), "
           "and channel state machines never use compare_exchange_weak outside the hybrid locks' fast paths.",
    "C04": "Also: every send-side commit (35 sites) lies behind an observation of receiver liveness on every call chain; the oneshot receive path decides Disconnected only on a state "
           "observation made after its sender_count read; handle counters are changed by RMW only and the last-handle decision is the RMW's result; in lock-based cores the "
           "emptiness observation and the Disconnected decision share one critical section.",
    "C05": "Also: at the 20 fence-protocol park sites something observes the other side's liveness between registration and park.",
    "C06": "Also: behind each of the 16 lock-free waker registrations every path to Pending re-reads the channel state and a liveness look lies in between.",
    "C09": "Also: the Drop of every payload-owning storage type passes its drain on every path (only the cell's own occupancy marker or needs_drop may skip it).",
    "C10": "Also: the WOKEN sample that decides wake forwarding is taken after the unlink (helpers followed), the lock word is never written by a plain store, all acquisition paths of "
           "one lock mode test the same mask, and ListGuard::rearm installs the caller's handle on every path.",
    "C11": "Also: map-typed fields whose values carry V are keyed by K; a Vacant entry is built only where the key is absent (as long as VacantEntry::insert ignores the replaced entry).",
    "C12": "Also: clock-vs-deadline comparisons are `now >= deadline` / `now < deadline`; every is_expired call gets the configured time_to_idle; nothing rewrites expires_at, "
           "last_accessed is written only by update_last_accessed, both read the precise clock; expiry test and removal share one write-lock critical section; a remaining "
           "lifetime is never passed where an absolute deadline is expected.",
    "C13": "Also: every fetch_add on current_cost adds the cost the entry was built with, and loop-published totals are reset on every iteration.",
    "C15": "Also: all six indexings of the in-flight load table compute the stripe by the same operations on the key's hash.",
    "C16": "Also: every JanitorContext receives the cache's notification sender.",
    "C17": "Also: every batch acceptance in IterStream::poll_next follows a cursor store, and iteration/snapshot code takes shard locks with blocking calls only.",
}

# clauses added in the second seeded round (DESIGN §9.8/§9.9)
ADDENDA2 = {
    "C02": "Also: the mpmc-unbounded hand-off session (values bound to parked receivers at publish time) is unreachable on the live control-flow graph. Batch fill functions never hand the caller's iterator to a recursive call of themselves before their own next() calls.",
    "C04": "Also: a counted clone is born open (closed = constant false on every path that registers it); a clone is registered only behind the not-closed edge of the source "
           "handle's flag (a closed handle's clone does not revive its side); a Disconnected read off a waiter state stored by the closer is followed by a re-drain wherever the "
           "channel has a buffer; oneshot observers read sender_count before the state. The close path of a cloneable receiver type dequeues nothing; the send-side instances of C06-6 are reported as C04-12.",
    "C05": "Also: where one notify can publish several items but wakes one waiter, consumers pass the wake on (live-CFG baton rule); a counted clone is born open, so the "
           "last-handle disconnect stays reachable. A count-guarded notify (`if got > 0`) may be skipped only on the zero outcome of that count; every successful dequeue of the wake-one protocol is followed by the baton on every path. Bounded mpmc: freed space always leads to a scan of the waiting senders, and a claimed sender is unlinked.",
    "C03": "Also: the `valid` count of a claimed run is min(claimed, window_end.saturating_sub(ticket)) in both claim functions.",
    "C07": "Also: modify closures never replace the cursor list by captured data; the spmc receive forms decide Disconnected only after another look at head/the slot (27 sites shared with C04-5). A publish that writes several slots drains each written slot's waker list.",
    "C08": "Also: the closures given to left_right::modify update the subscriber list in place, never by installing a snapshot computed earlier (lost update). Nothing removes a topic's entry from the dispatcher map.",
    "C10": "Also: every Poll::Pending of the three lock futures follows ListGuard::rearm in the same poll. In wake_waiters the woken writer stays linked and the flags are not recomputed on its path (the writer gate stays up while it re-contends).",
    "C11": "Also: the shard array indexed with `hash & (len-1)` has a power-of-two length by construction on every builder path. clear() reaches the map-clearing loop on every path (no early return decided from a counter).",
    "C12": "Also: the stale-while-revalidate arm is entered through the `now >= expires_at` outcome, not through is_expired (which also covers the idle timeout).",
    "C13": "Also: a wholesale reset of the gauge to 0 happens while every shard's write guard is held.",
    "C16": "Also: an `Expired` notification is tied to is_expired of the removed entry, tested in the removal's critical section (1 demonstrated known finding shared with C12).",
    "C17": "Also: the reference clock for persisted remaining lifetimes is sampled before the liveness test.",
    "C18": "Also: only the registration functions mutate a container's provider table; the resolution path never writes back.",
    "C19": "Also: the per-actor logger-rule lookup in process_event is unconditional (every actor's rules take part in the most-specific-logger decision). The `::`-boundary test is upstream of the longest-prefix selection in find_most_specific_rule; sends are recognised by position in the dispatch path, not by helper names.",
    "C01": "Also: in the bounded mpsc dequeue functions every advance of the consumer position follows a reset of the slot state to EMPTY (value slots and SKIP tombstones alike). A waiter state becomes CANCELLED only by compare_exchange from WAITING.",
    "C06": "Also: the baton rule of C05-6 is reported for the futures (a pending receive is woken for items another receiver leaves behind). The bounded-mpmc instances of C05-8 are reported as C06-8.",
    "C09": "Also: only the admitted functions (consumer pop, single producer's overwrite, teardown) destroy or move out MaybeUninit payload cells; a new destroyer fails closed. Oneshot: every path from the success edge of the SENT->TAKEN transition empties the slot.",
    "C14": "Also: the helper on_admit hands the cost to records it on every edge on which it found the key tracked.",
    "C15": "Also: the miss paths re-check the store under the stripe guard before inserting a marker (2 demonstrated known findings: the loader can run twice for one miss).",
}

NOT_APPLICABLE = {
    "C20": "Escaping round-trips for arbitrary Unicode, padding/truncation and roll/retention arithmetic are functions of input values and clock steps; the only structural fact (serde_json + one newline) constrains no realistic change (DESIGN §5).",
}
PENDING = "rule module under construction / violations on the pinned tree still being triaged (demonstrate, then fix or list); not registered until the check is silent on the unchanged tree"


def main():
    props = [json.loads(l) for l in open(os.path.join(VERIF, "properties.jsonl"))]
    checks = []
    na = []
    for p in props:
        pid = p["id"]
        if pid in CLAIMED:
            tech, text, ref = CLAIMED[pid]
            if pid in ADDENDA:
                text = text + " " + ADDENDA[pid]
            if pid in ADDENDA2:
                text = text + " " + ADDENDA2[pid]
            checks.append({
                "property_id": pid,
                "quick_cmd": f"./check {pid} --tier quick",
                "thorough_cmd": f"./check {pid} --tier thorough",
                "evidence_file": f"/verif/evidence/{pid}.json",
                "replay_cmd_template": f"./check {pid} --replay {{path}}",
                "engine": "fibre-facts+rules",
                "level_claimed": {"category": "other", "text": text, "design_ref": ref},
                "level_note": TB,
                "technique": "static analysis: " + tech + ("; thorough tier: compile_fail doctest witnesses with compiling twins (rustc nightly)" if pid in ("C01", "C07", "C10") else ""),
            })
        elif pid in NOT_APPLICABLE:
            na.append({"property_id": pid, "reason": NOT_APPLICABLE[pid]})
        else:
            na.append({"property_id": pid, "reason": PENDING})
    m = {
        "version": 1,
        "setup_cmd": "cd /verif/extractor && CARGO_NET_OFFLINE=true cargo build --release --offline",
        "hooks": {
            "guard": "excsn_fibre_verif",
            "enable": "none: the checks read /repo's sources through rustc (cargo +nightly check with a RUSTC_WORKSPACE_WRAPPER driver); no hook is compiled into excsn/fibre",
            "baseline_off_cmd": "cd /repo && cargo test --workspace --no-fail-fast --offline",
            "source_commits": [],
            "add_only": True,
        },
        "engines": [
            {"name": "fibre-facts", "path": "/verif/extractor", "serves_properties": sorted(CLAIMED),
             "kind_free_text": "rustc_private driver: serialises pre-coroutine-transform MIR (mir_promoted), ADTs, impls and auto-trait verdicts of every workspace crate as JSON facts"},
            {"name": "rules", "path": "/verif/engine + /verif/rules", "serves_properties": sorted(CLAIMED),
             "kind_free_text": "Python rule engine: CFG reachability/dominance by node/edge removal, must-held guard analysis, backward data-flow slices, call-graph reachability; per-property rule modules with frozen slot tables"},
        ],
        "checks": checks,
        "notes": "Static analysis only: no registered check executes code of /repo. See DESIGN.md. Known findings: /verif/known_findings.json.",
        "not_applicable": na,
    }
    with open(os.path.join(VERIF, "MANIFEST.json"), "w") as fh:
        json.dump(m, fh, indent=1)
    print("claimed:", sorted(CLAIMED), "n/a:", [x["property_id"] for x in na])


if __name__ == "__main__":
    main()
